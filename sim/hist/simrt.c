/* Link-time seams of the history simulator: allocator ledger (via -Wl,--wrap of
 * malloc/free/strndup/... as referenced by the libeav objects) and the IDN converter
 * with attached faults (-Wl,--wrap=idn2_to_ascii_8z for the libidn2 backend; called
 * by the adapters for the other two). */
#define _GNU_SOURCE
#include <stdio.h>
#include <stdlib.h>
#define _GNU_SOURCE
#include <link.h>
#include <string.h>
#include <errno.h>
#define IDN2_SKIP_LIBIDN_COMPAT
#include <idn2.h>
#include "../core/prng.h"
#include "simrt.h"

int g_sim_tag = SIM_TAG_NONE;
int g_sim_in_free = 0;

/* ------------------------------------------------------------------ reports */
int g_sim_nreports = 0;
char g_sim_report_cls[8][64];
char g_sim_report_detail[8][160];

void sim_report (const char *cls, const char *detail)
{
    if (g_sim_nreports < 8) {
        snprintf (g_sim_report_cls[g_sim_nreports], 64, "%s", cls);
        snprintf (g_sim_report_detail[g_sim_nreports], 160, "%s", detail ? detail : "");
    }
    g_sim_nreports++;
}

/* ------------------------------------------------------------------ ledger */
extern void *__real_malloc (size_t);
extern void  __real_free (void *);
extern void *__real_calloc (size_t, size_t);
extern void *__real_realloc (void *, size_t);
extern char *__real_strndup (const char *, size_t);
extern char *__real_strdup (const char *);

#define LSIZE 16384
struct lent { void *p; size_t n; int tag; int state; /* 0 empty 1 live 2 freed */ uint64_t seq; };
static struct lent ltab[LSIZE];
static int lused = 0;
static uint64_t lseq = 0, lallocs = 0, lfrees = 0;
static sim_rng fill_rng;
static int in_raw = 0;

static unsigned lhash (void *p) { return (unsigned)(sim_mix64 ((uint64_t)(uintptr_t)p) & (LSIZE - 1)); }

static struct lent *lfind (void *p)
{
    unsigned h = lhash (p);
    for (int i = 0; i < LSIZE; i++) {
        struct lent *e = &ltab[(h + i) & (LSIZE - 1)];
        if (e->state == 0) return NULL;
        if (e->p == p) return e;
    }
    return NULL;
}

/* long histories: forget blocks that were released long ago (only live entries are kept) */
static void lcompact (void)
{
    static struct lent keep[LSIZE / 4];
    int n = 0;
    for (int i = 0; i < LSIZE; i++) if (ltab[i].state == 1 && n < LSIZE / 4) keep[n++] = ltab[i];
    memset (ltab, 0, sizeof ltab);
    lused = 0;
    for (int k = 0; k < n; k++) {
        unsigned h = lhash (keep[k].p);
        for (int i = 0; i < LSIZE; i++) {
            struct lent *e = &ltab[(h + i) & (LSIZE - 1)];
            if (e->state == 0) { *e = keep[k]; lused++; break; }
        }
    }
}

static void ladd (void *p, size_t n, int tag)
{
    if (!p) return;
    if (lused >= LSIZE / 2) lcompact ();
    struct lent *e = lfind (p);
    if (!e) {
        if (lused >= LSIZE - 64) { sim_report ("harness:ledger-full", ""); return; }
        unsigned h = lhash (p);
        for (int i = 0; i < LSIZE; i++) {
            e = &ltab[(h + i) & (LSIZE - 1)];
            if (e->state == 0) break;
        }
        lused++;
    }
    e->p = p; e->n = n; e->tag = tag; e->state = 1; e->seq = ++lseq;
    lallocs++;
}

#define SIM_TAG_CARRIED 998
uint64_t sim_ledger_allocs (void) { return lallocs; }
uint64_t sim_ledger_frees (void) { return lfrees; }

int sim_ledger_live_total (void)
{
    int n = 0;
    for (int i = 0; i < LSIZE; i++) if (ltab[i].state == 1) n++;
    return n;
}

/* ---- reachability from the library's own static storage --------------------------------------------
 * A block that is still allocated after eav_free but reachable from a static of the library (a lazily built
 * index, a one-time table) is process-lifetime state, not something the object failed to release: valgrind
 * would call it "still reachable".  Only blocks NOT reachable that way count as unreleased.  The library
 * objects' writable sections are renamed at build time so the linker brackets them. */
extern char __start_eavdata[] __attribute__((weak)); extern char __stop_eavdata[] __attribute__((weak));
extern char __start_eavbss[] __attribute__((weak)); extern char __stop_eavbss[] __attribute__((weak));

static const char *tls_lo, *tls_hi; static int tls_known;
static int tls_cb (struct dl_phdr_info *info, size_t size, void *data)
{
    (void)size; (void)data;
    if (info->dlpi_name && info->dlpi_name[0]) return 0;        /* the executable only: the library objects are linked into it */
    if (!info->dlpi_tls_data) return 1;
    for (int i = 0; i < info->dlpi_phnum; i++)
        if (info->dlpi_phdr[i].p_type == PT_TLS) { tls_lo = (const char *)info->dlpi_tls_data; tls_hi = tls_lo + info->dlpi_phdr[i].p_memsz; }
    return 1;
}

#define MAXROOTS 16
static const char *root_lo[MAXROOTS]; static size_t root_n[MAXROOTS]; static int n_roots;
void sim_ledger_roots_clear (void) { n_roots = 0; }
void sim_ledger_root_add (const void *p, size_t n) { if (p && n_roots < MAXROOTS) { root_lo[n_roots] = (const char *)p; root_n[n_roots] = n; n_roots++; } }

#define MAXLIVE 1024
static struct lent *g_lv[MAXLIVE]; static unsigned char g_mark[MAXLIVE]; static int g_nlv;

static unsigned char *marks_of_last_scan (int *n) { *n = g_nlv; return g_mark; }

__attribute__((no_sanitize("address"))) static void scan_words (const char *lo, const char *hi, int *stack, int *sp)
{
    lo = (const char *)(((uintptr_t)lo + 7) & ~(uintptr_t)7);
    for (const char *q = lo; q + sizeof (void *) <= hi; q += sizeof (void *)) {
        uintptr_t w = *(const uintptr_t *)q;
        if (w < 4096) continue;
        for (int i = 0; i < g_nlv; i++) {
            struct lent *e = g_lv[i];
            if (!g_mark[i] && w >= (uintptr_t)e->p && w < (uintptr_t)e->p + (e->n ? e->n : 1)) { g_mark[i] = 1; if (*sp < MAXLIVE) stack[(*sp)++] = i; break; }
        }
    }
}

/* number of live blocks with this tag (or any tag if tag == -2) that are NOT reachable from library statics */
int sim_ledger_unreachable_live (int tag) { return sim_ledger_unreachable_list (tag, NULL, 0); }

int sim_ledger_unreachable_list (int tag, void **out, int max)
{
    static int stack[MAXLIVE]; int sp = 0, n = 0, any = 0;
    g_nlv = 0;
    for (int i = 0; i < LSIZE; i++) if (ltab[i].state == 1) {
        if (g_nlv < MAXLIVE) g_lv[g_nlv++] = &ltab[i];
        if (tag == -3 || (tag == -2 && ltab[i].tag != SIM_TAG_CARRIED) || ltab[i].tag == tag) any++;
    }
    memset (g_mark, 0, sizeof g_mark);
    if (!any) { g_nlv = 0; return 0; }
    if (__start_eavdata) scan_words (__start_eavdata, __stop_eavdata, stack, &sp);
    if (__start_eavbss) scan_words (__start_eavbss, __stop_eavbss, stack, &sp);
    /* thread-local statics of the executable (a per-thread free list is static storage too; the simulator has one thread) */
    if (!tls_known) { dl_iterate_phdr (tls_cb, NULL); tls_known = 1; }
    if (tls_lo) scan_words (tls_lo, tls_hi, stack, &sp);
    /* objects of the caller that are alive: what they hold is theirs (a recycled record keeps the tag of whoever allocated it first) */
    for (int i = 0; i < n_roots; i++) scan_words (root_lo[i], root_lo[i] + root_n[i], stack, &sp);
    while (sp > 0) { struct lent *e = g_lv[stack[--sp]]; scan_words ((const char *)e->p, (const char *)e->p + e->n, stack, &sp); }
    for (int i = 0; i < g_nlv; i++) if (((tag == -2 && g_lv[i]->tag != SIM_TAG_CARRIED) || g_lv[i]->tag == tag) && !g_mark[i]) { if (out && n < max) out[n] = g_lv[i]->p; n++; }
    return n;
}


void sim_ledger_reset (uint64_t fill_seed)
{
    /* blocks that the library itself still holds (reachable from its statics or thread-locals: a free list, a lazily built
     * index) stay known, under a tag that no check counts: a block of the next plan may be reachable only through them */
    static struct lent keep[256]; int nk = 0;
    n_roots = 0;
    if (lused) {
        int n = 0; sim_ledger_unreachable_list (-3, NULL, 0);      /* -3: look at every live block, carried ones included */
        unsigned char *m = marks_of_last_scan (&n);
        for (int i = 0; i < n && nk < 256; i++) if (m[i]) { keep[nk] = *g_lv[i]; keep[nk].tag = SIM_TAG_CARRIED; nk++; }
    }
    memset (ltab, 0, sizeof ltab);
    lused = 0; lseq = 0; lallocs = 0; lfrees = 0;
    for (int k = 0; k < nk; k++) {
        unsigned h = lhash (keep[k].p);
        for (int i = 0; i < LSIZE; i++) { struct lent *e = &ltab[(h + i) & (LSIZE - 1)]; if (e->state == 0) { *e = keep[k]; lused++; break; } }
    }
    fill_rng = sim_derive (fill_seed, 0xF111);
    g_sim_nreports = 0;
}


/* 0: not a block the ledger knows (static, thread-local or stack storage), 1: allocated, 2: released */
int sim_ledger_state (void *p)
{
    struct lent *e = lfind (p);
    return e ? e->state : 0;
}

int sim_ledger_live_for_tag (int tag, void **out, int max)
{
    int n = 0;
    for (int i = 0; i < LSIZE; i++)
        if (ltab[i].state == 1 && ltab[i].tag == tag) {
            if (out && n < max) out[n] = ltab[i].p;
            n++;
        }
    return n;
}

void sim_ledger_retag (int from, int to)
{
    for (int i = 0; i < LSIZE; i++)
        if (ltab[i].state == 1 && ltab[i].tag == from) ltab[i].tag = to;
}

void sim_ledger_forget (int tag)
{
    for (int i = 0; i < LSIZE; i++)
        if (ltab[i].state == 1 && ltab[i].tag == tag) { ltab[i].state = 2; lfrees++; }
}

int g_sim_af_at, g_sim_af_n, g_sim_af_fired; size_t g_sim_af_sizes[4];
static int alloc_fails (size_t size)
{
    if (g_sim_tag == SIM_TAG_NONE || in_raw || g_sim_af_at <= 0 || g_sim_af_fired) return 0;
    if (g_sim_af_n < 4) g_sim_af_sizes[g_sim_af_n] = size;
    if (++g_sim_af_n != g_sim_af_at) return 0;
    g_sim_af_fired = 1; errno = ENOMEM;
    return 1;
}

void sim_ledger_adopt (void *p, size_t n) { if (g_sim_tag != SIM_TAG_NONE) ladd (p, n, g_sim_tag); }

void sim_fill (void *p, size_t n)
{
    unsigned char *c = (unsigned char *)p;
    for (size_t i = 0; i < n; i++) {
        unsigned v = (unsigned)(sim_next (&fill_rng) & 0xff);
        c[i] = (unsigned char)(v ? v : 0xa5);      /* never 0: a forgotten field is visibly non-zero */
    }
}

void *sim_raw_malloc (size_t n) { in_raw++; void *p = __real_malloc (n); in_raw--; return p; }
void sim_raw_free (void *p) { in_raw++; __real_free (p); in_raw--; }

void *__wrap_malloc (size_t n)
{
    if (alloc_fails (n)) return NULL;
    void *p = __real_malloc (n);
    if (p && g_sim_tag != SIM_TAG_NONE && !in_raw) { sim_fill (p, n); ladd (p, n, g_sim_tag); }
    return p;
}

void *__wrap_calloc (size_t a, size_t b)
{
    if (alloc_fails (a * b)) return NULL;
    void *p = __real_calloc (a, b);
    if (p && g_sim_tag != SIM_TAG_NONE && !in_raw) ladd (p, a * b, g_sim_tag);
    return p;
}

void *__wrap_realloc (void *o, size_t n)
{
    if (g_sim_tag != SIM_TAG_NONE && !in_raw && o) {
        struct lent *e = lfind (o);
        if (e && e->state == 1) { e->state = 2; lfrees++; }
    }
    void *p = __real_realloc (o, n);
    if (p && g_sim_tag != SIM_TAG_NONE && !in_raw) ladd (p, n, g_sim_tag);
    return p;
}

char *__wrap_strndup (const char *s, size_t n)
{
    if (alloc_fails (strnlen (s, n) + 1)) return NULL;
    char *p = __real_strndup (s, n);
    if (p && g_sim_tag != SIM_TAG_NONE && !in_raw) ladd (p, strlen (p) + 1, g_sim_tag);
    return p;
}

char *__wrap_strdup (const char *s)
{
    if (alloc_fails (strlen (s) + 1)) return NULL;
    char *p = __real_strdup (s);
    if (p && g_sim_tag != SIM_TAG_NONE && !in_raw) ladd (p, strlen (p) + 1, g_sim_tag);
    return p;
}

void __wrap_free (void *p)
{
    if (p && !in_raw && g_sim_tag != SIM_TAG_NONE) {
        struct lent *e = lfind (p);
        if (e) {
            if (e->state == 2) {
                char d[96];
                snprintf (d, sizeof d, "block #%llu (%zu bytes) released twice", (unsigned long long)e->seq, e->n);
                sim_report ("ledger:double-free", d);
                return;                     /* do not let the allocator see it */
            }
            e->state = 2; lfrees++;
        }
    }
    __real_free (p);
}

/* ------------------------------------------------------------------ converter */
struct sim_conv g_sim_conv;

void sim_conv_begin (int armed, int code, int buf)
{
    memset (&g_sim_conv, 0, sizeof g_sim_conv);
    g_sim_conv.armed = armed; g_sim_conv.code = code; g_sim_conv.buf = buf;
}

typedef int (*conv_fn) (const char *, char **, int);
#ifdef SIM_WRAP_IDN2
extern int __real_idn2_to_ascii_8z (const char *, char **, int);
static conv_fn const default_conv = __real_idn2_to_ascii_8z;
#else
static conv_fn const default_conv = idn2_to_ascii_8z;
#endif

void sim_conv_at (int at) { g_sim_conv.at = at < 1 ? 1 : at; }

int g_sim_conv_style;
static int all_ascii (const char *s) { for (; *s; s++) if ((unsigned char)*s >= 0x80) return 0; return 1; }
static int convert_with (conv_fn real, const char *in, char **out, int *fault, int flags)
{
    int rc;
    int cflags = flags < 0 ? IDN2_NONTRANSITIONAL : flags;
    g_sim_conv.calls++;
    if (fault) *fault = 0;
    if (g_sim_conv.armed && !g_sim_conv.fired && g_sim_conv.calls >= (g_sim_conv.at ? g_sim_conv.at : 1)) {
        g_sim_conv.fired = 1;
        if (fault) *fault = 1;
        switch (g_sim_conv.buf) {
        case SIM_BUF_B: {           /* the converter "had produced a buffer" */
            size_t n = strlen (in) + 24;
            char *p = (char *)sim_raw_malloc (n);
            snprintf (p, n, "xn--partial-%zu", strlen (in));
            *out = p;
        } break;
        case SIM_BUF_C: {           /* real conversion done and discarded, then failure */
            char *t = NULL;
            in_raw++;
            (void)real (in, &t, cflags);
            if (t) __real_free (t);
            in_raw--;
            g_sim_conv.real_calls++;
        } break;
        default: break;             /* *out untouched */
        }
        rc = g_sim_conv.code;
    } else if (g_sim_conv_style == 1 && all_ascii (in) && strlen (in) <= 1000) {      /* (longer than idnkit's caller-side buffer: its API cannot deliver that, so the conversions would not be equivalent) */
        /* another, equally legitimate converter: IDNA2003-style ToASCII leaves an all-ASCII name exactly as it is (no case
         * folding, no hyphen or length rules) - libidn behaves like this; all builds of a lock-step run share the style */
        size_t n = strlen (in) + 1;
        char *p = (char *)sim_raw_malloc (n);
        memcpy (p, in, n);
        *out = p; rc = 0;
        g_sim_conv.real_calls++;
    } else {
        in_raw++;
        rc = real (in, out, cflags);
        in_raw--;
        g_sim_conv.real_calls++;
    }
    g_sim_conv.last_rc = rc; g_sim_conv.has_last = 1;
    return rc;
}

int sim_convert_raw (const char *in, char **out, int *fault, int flags) { return convert_with (default_conv, in, out, fault, flags); }

static int convert_adopt (conv_fn real, const char *in, char **out, int flags)
{
    int fault = 0;
    char *before = *out;
    int rc = convert_with (real, in, out, &fault, flags);
    if (*out && *out != before) sim_ledger_adopt (*out, strlen (*out) + 1);
    return rc;
}

int sim_convert (const char *in, char **out, int flags) { return convert_adopt (default_conv, in, out, flags); }

#ifdef SIM_WRAP_IDN2
int __wrap_idn2_to_ascii_8z (const char *in, char **out, int flags) { return sim_convert (in, out, flags); }
/* every other libidn2 conversion entry point with the (input, output*, flags) shape is behind the same fault seam: "whatever
 * error the IDN library returns" is not limited to the one call the library makes today */
#define OTHER_CONV(name) \
    extern int __real_##name (const char *, char **, int); \
    int __wrap_##name (const char *in, char **out, int flags) { return convert_adopt ((conv_fn)__real_##name, in, out, flags); }
OTHER_CONV (idn2_to_ascii_lz)
OTHER_CONV (idn2_lookup_u8)
OTHER_CONV (idn2_lookup_ul)
OTHER_CONV (idn2_to_unicode_8z8z)
OTHER_CONV (idn2_to_unicode_8zlz)
OTHER_CONV (idn2_to_unicode_lzlz)
#endif

/* ------------------------------------------------------------------ edge coverage of the library objects
 * (-fsanitize-coverage=trace-pc-guard on the library sources only): which edges has this process reached?  Used by the
 * corpus-growing front end: an input that reaches a new edge is kept. */
#define COV_MAX (1u << 16)
static unsigned char cov_seen[COV_MAX]; static unsigned cov_n_guards, cov_n_hit; unsigned g_sim_cov_new;
void __sanitizer_cov_trace_pc_guard_init (unsigned *start, unsigned *stop)
{
    if (start == stop || *start) return;
    for (unsigned *x = start; x < stop; x++) *x = (++cov_n_guards < COV_MAX) ? cov_n_guards : COV_MAX - 1;
}
void __sanitizer_cov_trace_pc_guard (unsigned *guard)
{
    unsigned g = *guard;
    if (!g || cov_seen[g]) return;
    cov_seen[g] = 1; cov_n_hit++; g_sim_cov_new++;
}
unsigned sim_cov_edges_hit (void) { return cov_n_hit; }
unsigned sim_cov_edges_total (void) { return cov_n_guards; }

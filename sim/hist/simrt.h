/* C interface between the history simulator (hist.cpp), the link-time seams
 * (simrt.c: allocator ledger, IDN converter with attached faults) and the backend
 * adapters / shim. */
#ifndef SIMRT_H
#define SIMRT_H
#include <stddef.h>
#include <stdint.h>
#ifdef __cplusplus
extern "C" {
#endif

/* ---- tags: who is the system under test working for right now ---- */
#define SIM_TAG_NONE (-1)
#define SIM_TAG_REF  (100)          /* fresh reference object */
extern int g_sim_tag;               /* set by the harness around every library call */

/* ---- violations noticed by seams (ledger, context ledger) ---- */
void sim_report (const char *cls, const char *detail);
extern int g_sim_nreports;
extern char g_sim_report_cls[8][64];
extern char g_sim_report_detail[8][160];

/* ---- allocator ledger ---- */
void   sim_ledger_reset (uint64_t fill_seed);
int    sim_ledger_live_total (void);
int    sim_ledger_live_for_tag (int tag, void **out, int max);
int    sim_ledger_unreachable_live (int tag);        /* live, tagged (or any: -2), not reachable from library statics */
void   sim_ledger_adopt (void *p, size_t n);        /* converter output handed to libeav */
void   sim_ledger_retag (int from, int to);
void   sim_ledger_roots_clear (void);         /* caller-owned live objects: roots for the reachability rule besides statics */
void   sim_ledger_root_add (const void *p, size_t n);
int    sim_ledger_state (void *p);            /* 0 unknown to the ledger, 1 allocated, 2 released */
int    sim_ledger_unreachable_list (int tag, void **out, int max);
void   sim_ledger_forget (int tag);    /* blocks of an object abandoned after an abort inside the library: no longer accounted */
/* allocation fault: the at-th allocation (malloc/calloc/strdup/strndup) made by library code from now on returns NULL */
extern int g_sim_af_at, g_sim_af_n, g_sim_af_fired; extern size_t g_sim_af_sizes[4];
uint64_t sim_ledger_allocs (void);
uint64_t sim_ledger_frees (void);
void  *sim_raw_malloc (size_t n);
void   sim_raw_free (void *p);
void   sim_fill (void *p, size_t n);                /* bytes from the plan's memory-fill stream */

/* ---- IDN converter with an attached fault ---- */
enum { SIM_BUF_A = 0, SIM_BUF_B = 1, SIM_BUF_C = 2 };
struct sim_conv {
    int armed;      /* a fault is attached to the current operation */
    int at;         /* it hits the at-th call of ANY libidn2 conversion entry point made by the operation (1 = first) */
    int code;       /* libidn2-numbered code to return */
    int buf;        /* SIM_BUF_* */
    int fired;      /* the attached fault was delivered */
    int calls;      /* converter calls during the current operation */
    int last_rc;    /* libidn2-numbered rc of the last converter call */
    int has_last;
    int real_calls; /* calls that ran the real libidn2 */
};
extern struct sim_conv g_sim_conv;
void sim_conv_begin (int armed, int code, int buf);
void sim_conv_at (int at);
/* raw: result not entered in the ledger; *fault set when the attached fault fired */
int  sim_convert_raw (const char *in, char **out, int *fault, int flags /* <0: default */);
/* malloc-style backends (libidn2, libidn): output is adopted by the ledger */
int  sim_convert (const char *in, char **out, int flags);

/* ---- idnkit adapter: context ledger and attached set-up fault ---- */
enum { SIM_SF_NONE = 0, SIM_SF_INITIALIZE = 1, SIM_SF_CREATE = 2 };
struct sim_ctxstat {
    int sf_armed, sf_fired;
    long created, destroyed, live, encode_calls, init_calls;
    long destroyed_by_setup, destroyed_by_free;
};
extern struct sim_ctxstat g_sim_ctx;
extern int g_sim_in_free;           /* harness: currently inside eav_free */
void sim_ctx_reset (void);
int  sim_ctx_live_for_tag (int tag);
void sim_ctx_retag (int from, int to);
void sim_ctx_forget (int tag);       /* the object owning these contexts was abandoned after an abort inside the library */

/* ---- shim: backend-neutral view of libeav (shim.c, compiled per backend) ---- */
struct shim_res {
    int present, is_ipv4, is_ipv6, is_domain, rc;
    long idn_rc;
    int has_extra;
    const char *lpart, *domain;
    void *self;
};
size_t shim_eav_size (void);
const char *shim_backend (void);
int  shim_has_extra (void);
int  shim_has_ndebug (void);
extern int g_sim_conv_style;             /* 0: libidn2's conversion; 1: all-ASCII names are returned unchanged (what an IDNA2003 library does) */
extern unsigned g_sim_cov_new;            /* edges of the library reached for the first time since it was last zeroed */
unsigned sim_cov_edges_hit (void); unsigned sim_cov_edges_total (void);
int  shim_is_special_domain (const char *s, const char *e);
void shim_init (void *e);
void shim_free (void *e);
int  shim_setup (void *e);
void shim_set_rfc (void *e, int v);
int  shim_get_rfc (void *e);
void shim_set_tld_check (void *e, int b);
int  shim_get_tld_check (void *e);
void shim_set_allow (void *e, int m);
int  shim_get_allow (void *e);
int  shim_is_email (void *e, const char *s, size_t n);
const char *shim_errstr (void *e);
int  shim_errcode (void *e);
void shim_get_result (void *e, struct shim_res *out);
void shim_res_from_ptr (void *r, struct shim_res *out);
void *shim_low_6531 (void *e, const char *s, size_t n, int tld);
void shim_result_free (void *r);
int  shim_low_utf8_domain (void *e, long *idnrc, const char *s, const char *end, int tld);
int  shim_low_ascii (int mode, const char *s, size_t n, int tld, struct shim_res *out);
long shim_map_code (int idn2code);      /* backend's code for a libidn2-numbered code */
const char *shim_idn_strerror (long backend_code);
int  shim_idn_error_errcode (void);     /* EEAV_IDN_ERROR */
int  shim_invalid_rfc_errcode (void);   /* EEAV_INVALID_RFC */
const char *shim_static_errtext (int errcode); /* via a scratch object: text of a non-IDN code */

/* generated-pool support: TLD table access */
int  shim_tld_count (void);
const char *shim_tld_name (int i);
int  shim_tld_type (int i);

#ifdef __cplusplus
}
#endif
#endif

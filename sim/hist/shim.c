/* Backend-neutral view of libeav for the simulator.  Compiled once per backend
 * (-DHAVE_LIBIDN2 | -DHAVE_LIBIDN | -DHAVE_IDNKIT) with the same flags as the library
 * objects, in C, so that eav_t is touched exactly as a C caller would. */
#include <stdio.h>
#include <stdlib.h>
#include <string.h>
#ifdef HAVE_LIBIDN2
#define IDN2_SKIP_LIBIDN_COMPAT
#include <idn2.h>
#endif
#include <eav.h>
#include <eav/auto_tld.h>
#include "simrt.h"

#ifndef HAVE_IDNKIT
struct sim_ctxstat g_sim_ctx;
void sim_ctx_reset (void) { memset (&g_sim_ctx, 0, sizeof g_sim_ctx); }
int sim_ctx_live_for_tag (int tag) { (void)tag; return 0; }
void sim_ctx_retag (int from, int to) { (void)from; (void)to; }
void sim_ctx_forget (int tag) { (void)tag; }
#endif

#ifdef HAVE_LIBIDN2
long sim_adapter_map_code (int c) { return c; }
const char *sim_adapter_strerror (long code) { return idn2_strerror ((int)code); }
const char *shim_backend (void) { return "idn2"; }
#elif defined HAVE_LIBIDN
extern long sim_adapter_map_code (int c);
extern const char *sim_adapter_strerror (long code);
const char *shim_backend (void) { return "idn"; }
#else
extern long sim_adapter_map_code (int c);
extern const char *sim_adapter_strerror (long code);
const char *shim_backend (void) { return "idnkit"; }
#endif

size_t shim_eav_size (void) { return sizeof (eav_t); }
int shim_has_extra (void)
{
#ifdef EAV_EXTRA
    return 1;
#else
    return 0;
#endif
}
int shim_has_ndebug (void)
{
#ifdef NDEBUG
    return 1;
#else
    return 0;
#endif
}
void shim_init (void *e) { eav_init ((eav_t *)e); }
void shim_free (void *e) { eav_free ((eav_t *)e); }
int  shim_setup (void *e) { return eav_setup ((eav_t *)e); }
void shim_set_rfc (void *e, int v) { ((eav_t *)e)->rfc = (EAV_RFC)v; }
int  shim_get_rfc (void *e) { return (int)((eav_t *)e)->rfc; }
void shim_set_tld_check (void *e, int b) { ((eav_t *)e)->tld_check = b ? true : false; }
int  shim_get_tld_check (void *e) { return ((eav_t *)e)->tld_check ? 1 : 0; }
void shim_set_allow (void *e, int m) { ((eav_t *)e)->allow_tld = m; }
int  shim_get_allow (void *e) { return ((eav_t *)e)->allow_tld; }
int  shim_is_email (void *e, const char *s, size_t n) { return eav_is_email ((eav_t *)e, s, n); }
const char *shim_errstr (void *e) { return eav_errstr ((eav_t *)e); }
int  shim_errcode (void *e) { return ((eav_t *)e)->errcode; }

void shim_res_from_ptr (void *rp, struct shim_res *out)
{
    eav_result_t *r = (eav_result_t *)rp;
    memset (out, 0, sizeof *out);
    out->self = rp;
    if (!r) return;
    out->present = 1;
    out->is_ipv4 = r->is_ipv4; out->is_ipv6 = r->is_ipv6; out->is_domain = r->is_domain;
    out->rc = r->rc;
    out->idn_rc = (long)r->idn_rc;
#ifdef EAV_EXTRA
    out->has_extra = 1; out->lpart = r->lpart; out->domain = r->domain;
#endif
}

void shim_get_result (void *e, struct shim_res *out) { shim_res_from_ptr (((eav_t *)e)->result, out); }

void *shim_low_6531 (void *e, const char *s, size_t n, int tld)
{
#ifdef HAVE_IDNKIT
    eav_t *x = (eav_t *)e;
    return is_6531_email (x->idn, x->actions, s, n, tld ? true : false);
#else
    (void)e;
    return is_6531_email (s, n, tld ? true : false);
#endif
}

void shim_result_free (void *r) { eav_result_free ((eav_result_t *)r); }

int shim_low_utf8_domain (void *e, long *idnrc, const char *s, const char *end, int tld)
{
#ifdef HAVE_IDNKIT
    eav_t *x = (eav_t *)e;
    idn_result_t r = idn_success;
    int rc = is_utf8_domain (x->idn, x->actions, &r, s, end, tld ? true : false);
    *idnrc = (long)r;
    return rc;
#else
    int r = 0, rc;
    (void)e;
    rc = is_utf8_domain (&r, s, end, tld ? true : false);
    *idnrc = r;
    return rc;
#endif
}

int shim_low_ascii (int mode, const char *s, size_t n, int tld, struct shim_res *out)
{
    eav_result_t *r;
    switch (mode) {
    case 0: r = is_822_email (s, n, tld ? true : false); break;
    case 1: r = is_5321_email (s, n, tld ? true : false); break;
    default: r = is_5322_email (s, n, tld ? true : false); break;
    }
    shim_res_from_ptr (r, out);
    out->lpart = out->domain = NULL;
    eav_result_free (r);
    return out->rc;
}

long shim_map_code (int c) { return sim_adapter_map_code (c); }
const char *shim_idn_strerror (long code) { return sim_adapter_strerror (code); }
int shim_idn_error_errcode (void) { return EEAV_IDN_ERROR; }
int shim_invalid_rfc_errcode (void) { return EEAV_INVALID_RFC; }

const char *shim_static_errtext (int errcode)
{
    static eav_t scratch;
    if (errcode < 0 || errcode >= EEAV_MAX || errcode == EEAV_IDN_ERROR) return NULL;
    eav_init (&scratch);            /* a properly initialised object: entry points may validate it */
    scratch.errcode = errcode;
    return eav_errstr (&scratch);
}

int shim_is_special_domain (const char *s, const char *e) { return is_special_domain (s, e); }

int shim_tld_count (void)
{
    int n = 0;
    while (tld_list[n].domain) n++;
    return n;
}
const char *shim_tld_name (int i) { return tld_list[i].domain; }
int shim_tld_type (int i) { return tld_list[i].type; }

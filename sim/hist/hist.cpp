// History simulator for libeav: C13 (eav_t reuse), C18 (backend lock-step + context
// ledger), C19 (IDN failure containment).  One source; linked once per backend with
// the backend's shim, adapter and library objects compiled from /repo.
//
//   hist gen   --prop P --cfg C --seed S --index I
//   hist run   --prop P --cfg C --seed S --start A --stride W --count N [--twice] [--secs T]
//   hist exec  --replay FILE [--log]
//   hist probe
//
// A run is a pure function of its plan (and of the plans executed before it in the
// same process, which is why a replay file is a *list* of plans).
#include <cstdio>
#include <cstdlib>
#include <cstring>
#include <csetjmp>
#include <sys/wait.h>
#include <unistd.h>
#include <array>
#include <cerrno>
#include <clocale>
#include <string>
#include <vector>
#include <map>
#include <set>
#include <algorithm>
#include <chrono>
#include <dirent.h>
#include "../core/prng.h"
#include "../core/json.hpp"
#include "../core/mutate.hpp"
#include "simrt.h"

using std::string;
using std::vector;

// ------------------------------------------------------------------ abort / assert seam
static jmp_buf g_abort_jmp;
static bool g_abort_armed = false;
static string g_abort_what;
// call-level seam: with an allocation fault attached, abort()/assert inside that one call is an outcome (the unchanged
// tree asserts on a failed allocation), compared with what a fresh object does under the same fault
static jmp_buf g_call_jmp;
static bool g_call_armed = false;
extern "C" void __wrap_abort(void) {
    if (g_call_armed) { g_call_armed = false; g_abort_what = "abort() called inside the library"; longjmp(g_call_jmp, 1); }
    if (g_abort_armed) { g_abort_what = "abort() called inside the library"; longjmp(g_abort_jmp, 1); }
    _Exit(70);
}
extern "C" void __wrap___assert_fail(const char *expr, const char *file, unsigned line, const char *fn) {
    if (g_call_armed || g_abort_armed) {
        char b[256]; snprintf(b, sizeof b, "assertion `%s' failed at %s:%u (%s)", expr, file, line, fn ? fn : "?");
        g_abort_what = b;
        if (g_call_armed) { g_call_armed = false; longjmp(g_call_jmp, 2); }
        longjmp(g_abort_jmp, 2);
    }
    fprintf(stderr, "assert outside SUT: %s %s:%u\n", expr, file, line);
    _Exit(71);
}

// eav_is_email with the mf-th allocation of the library failing; returns false if the library aborted / asserted
extern "C" int shim_is_email(void *e, const char *s, size_t n);
static __attribute__((noinline)) bool guarded_is_email(void *e, const char *s, size_t n, int mf, int *ret) {
    g_sim_af_at = mf; g_sim_af_n = 0; g_sim_af_fired = 0;
    g_call_armed = true;
    if (setjmp(g_call_jmp) == 0) { *ret = shim_is_email(e, s, n); g_call_armed = false; g_sim_af_at = 0; return true; }
    g_sim_af_at = 0;
    return false;
}

static string af_signature() {
    string s = g_sim_af_fired ? "fired" : "not-fired";
    for (int i = 0; i < g_sim_af_n && i < 4; i++) s += (i ? "," : ":") + std::to_string(g_sim_af_sizes[i]);
    return s;
}

// ------------------------------------------------------------------ plans
enum Kind { SET_RFC, SET_TLD, SET_ALLOW, SETUP, IS_EMAIL, ERRSTR, READ_RESULT, FREE_INIT,
            LOW_6531, LOW_UTF8DOM, NKINDS };
static const char *KNAME[NKINDS] = { "SET_RFC", "SET_TLD", "SET_ALLOW", "SETUP", "IS_EMAIL", "ERRSTR",
                                     "READ_RESULT", "FREE_INIT", "LOW_6531", "LOW_UTF8DOM" };

struct Op {
    Kind k = SET_RFC; int o = 0; long long v = 0; string a;
    bool f_on = false; int f_code = 0; int f_buf = 0; int f_at = 1; int sf = 0;
    int mf = 0;     // IS_EMAIL: the mf-th allocation made by the library during the call fails; the object is retired afterwards
    int tw = 0;     // FREE_INIT: eav_free is called twice before eav_init ("releases everything exactly once": the second call has nothing left to release)
};
struct Plan {
    string prop = "C13", cfg = "nofault";
    uint64_t seed = 0, fill = 1; int nobj = 1; long long index = -1;
    string locale = "C";    // process locale while the plan runs
    int cs = 0;         // converter style of this plan (simrt.h: g_sim_conv_style); every build of a lock-step run uses the same
    int amode = 0;      // how the caller holds the address: 0 exact-size fresh block per call, 1 one reused buffer per object, 2 one reused buffer for all objects
    vector<Op> ops;
};

static sj::Value op_to_json(const Op &op) {
    sj::Value j = sj::Value::object();
    j.set("k", KNAME[op.k]); j.set("o", op.o);
    if (op.k == SET_RFC || op.k == SET_TLD || op.k == SET_ALLOW || op.k == LOW_6531 || op.k == LOW_UTF8DOM) j.set("v", op.v);
    if (op.k == IS_EMAIL || op.k == LOW_6531 || op.k == LOW_UTF8DOM) j.set("a", op.a);
    if (op.f_on) { sj::Value f = sj::Value::object(); f.set("code", op.f_code); f.set("buf", op.f_buf); if (op.f_at != 1) f.set("at", op.f_at); j.set("f", f); }
    if (op.sf) j.set("sf", op.sf);
    if (op.mf) j.set("mf", op.mf);
    if (op.tw) j.set("tw", op.tw);
    return j;
}
static sj::Value plan_to_json(const Plan &p) {
    sj::Value j = sj::Value::object();
    j.set("prop", p.prop); j.set("cfg", p.cfg); j.set("seed", (long long)p.seed); j.set("index", p.index);
    j.set("fill", (long long)p.fill); j.set("nobj", p.nobj); j.set("amode", p.amode); j.set("locale", p.locale); if (p.cs) j.set("cs", p.cs);
    sj::Value a = sj::Value::array();
    for (auto &op : p.ops) a.push(op_to_json(op));
    j.set("ops", a);
    return j;
}
static Plan plan_from_json(const sj::Value &j) {
    Plan p;
    p.prop = j.gets("prop", "C13"); p.cfg = j.gets("cfg", "nofault");
    p.seed = (uint64_t)j.geti("seed"); p.fill = (uint64_t)j.geti("fill", 1); p.nobj = (int)j.geti("nobj", 1);
    p.index = j.geti("index", -1); p.amode = (int)j.geti("amode", 0); p.locale = j.gets("locale", "C"); p.cs = (int)j.geti("cs", 0);
    if (p.nobj < 1) p.nobj = 1;
    if (p.nobj > 8) p.nobj = 8;
    const sj::Value *ops = j.get("ops");
    if (ops) for (auto &e : ops->a) {
        Op op; string k = e.gets("k");
        int ki = -1;
        for (int i = 0; i < NKINDS; i++) if (k == KNAME[i]) ki = i;
        if (ki < 0) continue;
        op.k = (Kind)ki; op.o = (int)e.geti("o"); op.v = e.geti("v"); op.a = e.gets("a");
        const sj::Value *f = e.get("f");
        if (f && f->kind == sj::Value::Obj) { op.f_on = true; op.f_code = (int)f->geti("code"); op.f_buf = (int)f->geti("buf"); op.f_at = (int)f->geti("at", 1); }
        op.sf = (int)e.geti("sf"); op.mf = (int)e.geti("mf"); op.tw = (int)e.geti("tw");
        if (op.o < 0) op.o = 0;
        op.o %= p.nobj;                 // ops are interpreted modulo what exists
        p.ops.push_back(op);
    }
    return p;
}

// ------------------------------------------------------------------ pools
struct Pools {
    size_t grown = 0;
    vector<string> emails;      // corpora e-mail lines
    vector<string> idn;         // addresses whose domain reaches the converter with non-ASCII / xn--
    vector<string> gen;         // generated local x domain
    vector<string> conv;        // valid-6531-local addresses with a non-bracket domain (reach the converter)
    vector<string> domains;     // bare domains for LOW_UTF8DOM
    vector<std::pair<string, string>> pairs;   // addresses with related TLDs (one a proper prefix of the other, classes differ)
    vector<string> all;
};
static Pools G;
static string g_repo = "/repo";

static vector<string> read_lines(const string &path) {
    vector<string> out;
    string s;
    try { s = sj::read_file(path); } catch (...) { return out; }
    size_t i = 0;
    while (i < s.size()) {
        size_t j = s.find('\n', i);
        if (j == string::npos) j = s.size();
        string l = s.substr(i, j - i);
        if (!l.empty() && l.back() == '\r') l.pop_back();
        if (!l.empty() && l[0] != '#' && l.find('\0') == string::npos) out.push_back(l);
        i = j + 1;
    }
    return out;
}

static bool has_hi(const string &s) { for (unsigned char c : s) if (c >= 0x80) return true; return false; }

static void build_pools() {
    const char *emailf[] = { "email-reg.ru.txt", "email-result-check.txt", "email-utf8.txt", "fail-email-ascii-slurp.txt",
        "fail-email-ascii.txt", "pass-email-ascii-slurp.txt", "pass-email-ascii.txt", "retired.txt", "underscore.txt" };
    const char *lpartf[] = { "localpart-ascii.txt", "localpart-utf8-rfc20.txt", "localpart-utf8.txt" };
    const char *domf[] = { "domain-length.txt", "xn-dash-domains.txt" };
    vector<string> locals_corp, doms_corp;
    for (auto f : emailf) for (auto &l : read_lines(g_repo + "/data/" + f)) G.emails.push_back(l);
    for (auto f : lpartf) for (auto &l : read_lines(g_repo + "/data/" + f)) locals_corp.push_back(l);
    for (auto f : domf) for (auto &l : read_lines(g_repo + "/data/" + f)) doms_corp.push_back(l);
    vector<string> tldd = read_lines(g_repo + "/data/tld-domains.txt");

    // generated local parts (valid and invalid in various modes)
    vector<string> locals = { "user", "a.b", "very.common", "\"q s\"", "\"a\\\"b\"", "x", "!#$%&'*+-/=?^_`{}|~",
        string(64, 'x'), string(65, 'y'), "a..b", ".a", "a.", "a b", "\"open", "a\"b", "\xd0\xb8\xd0\xb2\xd0\xb0\xd0\xbd",
        "\xe7\x94\xa8\xe6\x88\xb7", "\xff\xfe", "a\tb", "\"a\tb\"", "\"a\r\n b\"", "\"\\\x01\"", "#hash", "a@b", "(c)", "\"\"",
        "\"\xd0\xb9 \xd0\xb9\"", "\xc0\xaf", "a.\"b\".c", "\"a\".b",
        // quoted strings with (folding) white space in every position, terminated or not: scanners with look-ahead state
        "\"ab ", "\"ab\t", "\"ab \"", "\"a b\"", "\" ab\"", "\"ab\r\n c\"", "\"ab\r\n", "\"ab \xd0\xb9\"", "\"ab \xd0\xb9", "\"a\\ b\"", "\"a\\", "\"ab\r", "\"ab\n", "\"a  b\"", "\"ab \xff" };
    // generated domains
    vector<string> doms = { "iana.org", "example.com", "sub.example.net", "EXAMPLE.ORG", "localhost", "x.test", "foo.invalid",
        "a.onion", "example", "host", "mail.ru", "123.456", "1.2.3.4", "under_score.com", "-a.com", "a-.com", "ab--cd.com",
        "a..b.com", ".lead.com", "trail.com.", "trail.ru..", string(63, 'a') + ".com", string(64, 'a') + ".com",
        "[1.2.3.4]", "[IPv6:::1]", "[IPv6:2001:db8::1]", "[1.2.3]", "[IPv6:zz]", "[1.2.3.4", "[]", "[300.1.1.1]", " space.com",
        "[340282366920938463463374607431768211456.0.2.1]", "[99999999999999999999.1.1.1]", "[1.2.3.18446744073709551616]", "[4294967296.1.1.1]", "[IPv6:::ffff:1.99999999999999999999999.2.3]", "[0001.2.3.4]", "[1.2.3.4.5]", "[1.2.3.256]",
        "[1.2.3.4]x", "[1.2.3.4].com", "[IPv6:::1]:25", "[1.2.3.4] ", "[1.2.3.44", "[IPv6:2001:db8::1", "x[1.2.3.4]", "[1.2.3.4]]", "[[1.2.3.4]", "[IPv6:1.2.3.4]", "[ipv6:::1]",
        "a.b.c.d.e.f.g.iana.org", "xn--p1ai.com", "xn--a.com", "xn--80a1acny.xn--p1ai", "xn---abc.com", "xn--zz--zz.com",
        "\xd0\xbf\xd0\xbe\xd1\x87\xd1\x82\xd0\xb0.\xd1\x80\xd1\x84",            // почта.рф
        "\xd0\x9f\xd0\xbe\xd0\xa7\xd1\x82\xd0\x90.\xd0\xa0\xd0\xa4",            // ПоЧтА.РФ
        "b\xc3\xbc" "cher.de", "\xe4\xbe\x8b\xe3\x81\x88.jp", "\xe2\x98\x95.de", "I\xe2\x99\xa5NY.de",
        "\xe5\xbe\xae\xe5\x8d\x9a.\xe5\xbe\xae\xe5\x8d\x9a",                    // 微博.微博
        "\xd0\xbd\xd0\xb5\xd1\x82.\xd0\xbe\xd1\x84", "\xff\xfe.com", "\xc3.com", "a\xcc\x81.com", "\xcc\x81" "a.com",
        "fa\xc3\x9f.de", "\xe2\x80\x8d.com", "a.\xd1\x80\xd1\x84.", "\xd0\xb8.\xd0\xb8", "x." + string(70, 'b') + ".org" };
    {   // U-label spellings whose converted form is an interesting ASCII name: alternative label separators (U+3002, U+FF0E,
        // U+FF61 all map to '.'), full-width letters, ignorable characters (soft hyphen, ZWNJ is contextual) - a check made
        // on the caller's spelling instead of on the converted name behaves differently exactly here
        const char *names[] = { "example.com", "sub.example.net", "example.org", "x.test", "foo.invalid", "localhost", "a.onion", "mail.ru", "iana.org", "host.museum", "host.aero", "nic.arpa" };
        const char *dots[] = { "\xe3\x80\x82", "\xef\xbc\x8e", "\xef\xbd\xa1" };
        for (auto nm : names) {
            string n = nm;
            for (auto d : dots) { string v = n; size_t p = v.rfind('.'); if (p != string::npos) { v.replace(p, 1, d); doms.push_back(v); } }
            { string v = n; unsigned char c = (unsigned char)v[0]; if (c >= 'a' && c <= 'z') { char fw[4] = { (char)0xef, (char)0xbd, (char)(0x81 + (c - 'a')), 0 }; v.replace(0, 1, fw); doms.push_back(v); } }
            { string v = n; v.insert(v.size() / 2, "\xc2\xad"); doms.push_back(v); }
            { string v = n; for (auto &ch : v) if (ch >= 'a' && ch <= 'z' && (&ch - &v[0]) % 2 == 0) ch = (char)(ch - 32); doms.push_back(v); }
        }
    }
    {   // U-label spellings whose converted form is a DEGENERATE ASCII name: code points that IDNA mapping deletes (soft hyphen,
        // ZWSP, variation selector, word joiner) standing alone as a label or as the whole domain convert - successfully - to
        // "", ".", "a.", ".com", "a..com"; what happens then is decided after the conversion, in three separate copies
        const char *ign[] = { "\xc2\xad", "\xe2\x80\x8b", "\xef\xb8\x8f", "\xe2\x81\xa0" };
        for (auto g : ign) {
            string G1 = g;
            for (string d : { G1, G1 + G1, G1 + ".com", "a." + G1, "a." + G1 + ".com", G1 + "." + G1, "example.com." + G1, G1 + "example.org", "\xd0\xb8." + G1, G1 + ".\xd1\x80\xd1\x84" }) doms.push_back(d);
        }
        for (auto d : { "\xe3\x80\x82", "\xef\xbc\x8e", "\xe3\x80\x82\xe3\x80\x82", "a\xe3\x80\x82", "\xe3\x80\x82" "com" }) doms.push_back(d);
    }
    {   // all-ASCII names with an underscore label (legal only with LABELS_ALLOW_UNDERSCORE) whose conversion is NOT the identity:
        // malformed A-labels, over-long labels, over-long names - a copy that skips the converter for "plain ASCII" answers differently
        for (auto d : { "a_b.xn--0.com", "a_b.xn--a.com", "_dmarc.xn---abc.com", "_sip._tcp.xn--zz--zz.com", "a_b.xn--p1ai", "x_y.xn--80a1acny.xn--p1ai", "a_b.XN--0.com" }) doms.push_back(d);
        doms.push_back("a_b." + string(64, 'a') + ".com"); doms.push_back("a_b." + string(63, 'a') + ".com");
        { string d = "a_b."; while (d.size() < 250) d += "abcdefghi."; doms.push_back(d + "com"); }
    }
    {   // many short internationalised labels: the converted name is much longer than its spelling (every label gets its own
        // "xn--" and digits) - buffers sized from the input length plus some slack are too small exactly here
        const char *one[] = { "\xd1\x8f", "\xc3\xbc", "\xe4\xbe\x8b", "\xce\xb1" };
        for (int n : { 6, 11, 12, 13, 16, 24, 30, 40 }) for (int w = 0; w < 4; w++) {
            if ((n + w) % 2) continue;
            string d; for (int i = 0; i < n; i++) { d += one[w]; d += "."; }
            doms.push_back(d + "\xd1\x80\xd1\x84"); doms.push_back(d + "com");
        }
    }
    {   // a > 253 octet domain and an exactly-253 one
        string d; while (d.size() < 250) d += "abcdefghi.";
        doms.push_back(d + "com"); doms.push_back(d.substr(0, 240) + "abcdefghi.com");
    }
    // TLD classes present in the table: two names per class, plus every xn-- TLD's A-label
    std::map<int, int> percls;
    int nt = shim_tld_count();
    for (int i = 0; i < nt; i++) {
        int t = shim_tld_type(i); string n = shim_tld_name(i);
        if (percls[t] < 3) { percls[t]++; doms.push_back("host." + n); }
        if (n.compare(0, 4, "xn--") == 0 && (i % 6) == 0) doms.push_back("mail." + n);
    }
    for (size_t i = 0; i < tldd.size(); i++) if (has_hi(tldd[i]) || (i % 40) == 0) doms.push_back(tldd[i]);
    for (int i = 0; i < nt && G.pairs.size() < 300; i++) for (int j = 0; j < nt; j++) {
        if (i == j) continue;
        string a = shim_tld_name(i), b = shim_tld_name(j);
        if (a.size() < b.size() && b.compare(0, a.size(), a) == 0 && shim_tld_type(i) != shim_tld_type(j) && (i * 31 + j) % 4 == 0)
            G.pairs.push_back({ "user@host." + a, "user@host." + b });
    }
    // an unknown label that extends, or differs late from, a LONG valid TLD (keys cut to a fixed width, prefix compares): the
    // unknown one first, then the valid one
    for (int i = 0; i < nt; i++) {
        string a = shim_tld_name(i);
        if (a.size() < 10) continue;
        string t1 = a + a.back(), t2 = a + "s", t3 = a; t3[a.size() - 1] = (a.back() == 'x' ? 'y' : 'x');
        G.pairs.push_back({ "user@host." + t1, "user@host." + a });
        if ((i % 3) == 0) G.pairs.push_back({ "user@host." + t2, "user@host." + a });
        if ((i % 3) == 1) G.pairs.push_back({ "user@host." + t3, "user@host." + a });
    }
    // same length, same first and last bytes, different verdict: defeats memoisation keyed on cheap features of the address
    {
        const char *base[] = { "user@host.com", "very.common@iana.org", "a.b@mail.ru", "x@[1.2.3.4]", "info@example.net", "user@host.museum", "u@xn--80a1acny.xn--p1ai", "first.last@sub.domain.org" };
        for (auto bs : base) {
            string a = bs; size_t at = a.find('@');
            string v1 = a; v1[at + 1 + (a.size() - at - 1) / 2] = '_'; G.pairs.push_back({ a, v1 });
            string v2 = a; v2[at / 2] = ' '; G.pairs.push_back({ a, v2 });
            string v3 = a; if (a.size() - at > 4) { v3[a.size() - 2] = v3[a.size() - 2] == 'o' ? 'q' : 'o'; G.pairs.push_back({ a, v3 }); }
        }
    }
    // the longest names of the table (length pre-checks, fixed label buffers)
    { vector<string> byl; for (int i = 0; i < nt; i++) byl.push_back(shim_tld_name(i)); std::sort(byl.begin(), byl.end(), [](const string &x, const string &y) { return x.size() > y.size(); }); for (size_t i = 0; i < byl.size() && i < 8; i++) doms.push_back("mail." + byl[i]); }
    for (auto &d : doms_corp) doms.push_back(d);
    for (auto &l : locals_corp) locals.push_back(l);

    for (auto &l : locals) for (size_t j = 0; j < doms.size(); j++) {
        // full product is large; keep every pair for the first 12 locals, a stride for the rest
        size_t li = &l - &locals[0];
        if (li < 12 || (j + li) % 7 == 0) G.gen.push_back(l + "@" + doms[j]);
    }
    G.gen.push_back(""); G.gen.push_back("@"); G.gen.push_back("noat"); G.gen.push_back("a@"); G.gen.push_back("@b.com");
    // sizes around every internal limit and far beyond: 64/65 local, 253..256 domain, DOMAIN_SIZE (1024), a page, 64 KiB
    {
        static const size_t LENS[] = { 300, 1000, 1023, 1024, 1025, 1026, 1100, 2047, 2048, 2049, 4096, 8192, 65535, 65536, 70000 };
        for (size_t n : LENS) {
            string dom; while (dom.size() + 12 < n) dom += "abcdefghij."; dom += "com";
            G.gen.push_back("user@" + dom);
            G.gen.push_back("\xd0\xb8@" + dom);
            G.gen.push_back(string(n > 20 ? n - 12 : 8, 'a') + "@example.org");
            string ud; while (ud.size() + 20 < n) ud += "\xd0\xbf\xd0\xbe\xd1\x87\xd1\x82\xd0\xb0."; ud += "\xd1\x80\xd1\x84";
            if (n <= 8192) G.gen.push_back("u@" + ud);
        }
    }
    // rooted (trailing dot) spellings of ordinary, special and IDN domains
    for (auto nm : { "example.com.", "sub.example.net.", "mail.ru.", "iana.org.", "x.test.", "localhost.", "a.onion.", "host.museum.", "\xd0\xbf\xd0\xbe\xd1\x87\xd1\x82\xd0\xb0.\xd1\x80\xd1\x84.", "example.com..", "com." }) {
        G.gen.push_back(string("user@") + nm); G.conv.push_back(string("user@") + nm);
    }
    for (auto &d : doms) {
        if (d.empty() || d[0] == '[' || d.find('@') != string::npos) continue;
        G.domains.push_back(d);
        G.conv.push_back("user@" + d);
        G.conv.push_back("\xd0\xb8\xd0\xb2\xd0\xb0\xd0\xbd@" + d);
        if (has_hi(d) || d.find("xn--") != string::npos) G.idn.push_back("u@" + d);
    }
    for (auto &e : G.emails) {
        size_t at = e.rfind('@');
        if (at != string::npos && (has_hi(e.substr(at)) || e.find("xn--", at) != string::npos)) G.idn.push_back(e);
    }
    // addresses a coverage-guided front end found (they reached library code the pools above did not): first in the sweep order
    if (const char *cf = getenv("VERIF_CORPUS")) if (*cf) {
        try {
            sj::Value j = sj::parse(sj::read_file(cf));
            for (auto &e : j.a) {
                string a = e.s; if (a.empty() || a.find('\0') != string::npos) continue;
                G.all.push_back(a); G.grown++;
                size_t at = a.rfind('@');
                if (at != string::npos && (has_hi(a.substr(at)) || a.find("xn--", at) != string::npos || a.find("XN--", at) != string::npos)) { G.idn.push_back(a); G.conv.push_back(a); }
                else G.gen.push_back(a);
                G.emails.push_back(a);
            }
        } catch (...) { }
    }
    { std::set<string> have(G.all.begin(), G.all.end()); for (auto &v : { &G.emails, &G.idn, &G.gen, &G.conv }) for (auto &s : *v) if (have.insert(s).second) G.all.push_back(s); }
}

// ------------------------------------------------------------------ generation
static const int IDN2_CODES[] = { -100, -101, -102, -200, -201, -202, -203, -204, -205, -206, -207, -208, -209,
    -300, -301, -302, -303, -304, -305, -306, -307, -308, -309, -310, -311, -312, -313, -314, -9999, 7 };
static const int N_CODES = sizeof(IDN2_CODES) / sizeof(IDN2_CODES[0]);

static const string &pick(sim_rng &r, const vector<string> &v) { return v[sim_below(&r, v.size())]; }

static vector<string> draw_pool(sim_rng &r, const string &prop, int n) {
    vector<string> p;
    if (!G.pairs.empty() && sim_below(&r, 4) == 0) {   // related TLDs: a stale "last hit" turns one into the other
        int np = 1 + (int)sim_below(&r, 3);
        for (int i = 0; i < np; i++) { auto &pr = G.pairs[sim_below(&r, G.pairs.size())]; p.push_back(pr.first); p.push_back(pr.second); }
        if (sim_below(&r, 2)) n = (int)sim_below(&r, 3);
    }
    for (int i = 0; i < n; i++) {
        unsigned c = (unsigned)sim_below(&r, 100);
        if (prop == "C19") {
            if (c < 55) p.push_back(pick(r, G.conv)); else if (c < 80) p.push_back(pick(r, G.idn));
            else if (c < 90) p.push_back(pick(r, G.gen)); else p.push_back(pick(r, G.emails));
        } else if (prop == "C18") {
            if (c < 35) p.push_back(pick(r, G.idn)); else if (c < 60) p.push_back(pick(r, G.conv));
            else if (c < 85) p.push_back(pick(r, G.gen)); else p.push_back(pick(r, G.emails));
        } else {
            if (c < 40) p.push_back(pick(r, G.gen)); else if (c < 70) p.push_back(pick(r, G.emails));
            else if (c < 85) p.push_back(pick(r, G.idn)); else p.push_back(pick(r, G.conv));
        }
        if (sim_below(&r, 40) == 0) { static const char *deg[] = { "", "@", "a@", "@b.com", "noat", "@@", "a@b" }; p.back() = deg[sim_below(&r, 7)]; }
        // the neighbourhood of the hand-made shapes: seeded structural mutation of one address in five
        if (sim_below(&r, 5) == 0) {
            // (half the time next to its original: whatever remembers the previous address meets its near-twin)
            string m = mut::mutate(&r, p.back());
            if (sim_below(&r, 2)) p.push_back(m); else p.back() = m;
        }
    }
    return p;
}

static void draw_fault(sim_rng &r, Op &op) {
    op.f_on = true; op.f_code = IDN2_CODES[sim_below(&r, N_CODES)]; op.f_buf = (int)sim_below(&r, 3);
    { unsigned c = (unsigned)sim_below(&r, 10); op.f_at = c < 7 ? 1 : c < 9 ? 2 : 3; }   // which IDN-library call of the operation fails
}

static long long draw_allow(sim_rng &r) {
    unsigned c = (unsigned)sim_below(&r, 100);
    if (c < 10) return 0;
    if (c < 15) return -1;
    if (c < 25) return 0x7fc;                       // all defined bits
    if (c < 40) return 1LL << (1 + sim_below(&r, 10)); // a single class
    if (c < 50) return (long long)(sim_next(&r) & 0xffffffff) - 0x80000000LL; // garbage incl. high bits
    return (long long)(sim_next(&r) & 0x7fe);       // uniform over bits 1..10
}

static long long draw_rfc(sim_rng &r, unsigned p_invalid) {
    static const long long bad[] = { -1, 4, 7, 99, 2147483647LL, -2147483647LL - 1 };
    if (sim_below(&r, 100) < p_invalid) return bad[sim_below(&r, 6)];
    return (long long)sim_below(&r, 4);
}

// generic history generator (C13, C18)
static Plan gen_history(const string &prop, const string &cfg, uint64_t seed, long long index) {
    Plan p; p.prop = prop; p.cfg = cfg; p.seed = seed; p.index = index;
    uint64_t rs = sim_mix64(seed ^ sim_mix64((uint64_t)index * 0x9E3779B97F4A7C15ULL + (prop == "C18" ? 18 : 13)));
    sim_rng w = sim_derive(rs, 1), f = sim_derive(rs, 2);
    p.fill = sim_mix64(rs ^ 0xF1);
    p.nobj = 1 + (int)sim_below(&w, 3);
    if (sim_below(&w, 25) == 0) p.nobj = 4 + (int)sim_below(&w, 5);      // many objects alive at once (fixed-size registries)
    p.amode = (int)sim_below(&w, 3);
    p.locale = sim_below(&w, 4) == 0 ? "C.UTF-8" : "C";
    { sim_rng cr = sim_derive(rs, 9); if (sim_below(&cr, 6) == 0) p.cs = 1; }      // one plan in six: the IDNA2003-style converter
    int len;
    unsigned lc = (unsigned)sim_below(&w, 100);
    if (lc < 35) len = 1 + (int)sim_below(&w, 8);
    else if (lc < 75) len = 6 + (int)sim_below(&w, 30);
    else len = 30 + (int)sim_below(&w, 171);
    // rare long histories: counters that wrap or thresholds that trip after a few hundred calls (thorough: after 2^16)
    if (sim_below(&w, 150) == 0) len = 260 + (int)sim_below(&w, 500);
    if (cfg.size() > 5 && cfg.compare(cfg.size() - 5, 5, "-long") == 0) len = 65600 + (int)sim_below(&w, 600);
    int npool = 2 + (int)sim_below(&w, 39);
    if (sim_below(&w, 4) == 0) npool = 2 + (int)sim_below(&w, 3);
    vector<string> pool = draw_pool(w, prop, npool);
    // swarm: per-plan op mix
    unsigned wt[NKINDS] = { 0 };
    wt[SET_RFC] = 1 + (unsigned)sim_below(&w, 12); wt[SET_TLD] = (unsigned)sim_below(&w, 8); wt[SET_ALLOW] = (unsigned)sim_below(&w, 8);
    wt[SETUP] = 2 + (unsigned)sim_below(&w, 12); wt[IS_EMAIL] = 8 + (unsigned)sim_below(&w, 30); wt[ERRSTR] = (unsigned)sim_below(&w, 10);
    wt[READ_RESULT] = (unsigned)sim_below(&w, 5); wt[FREE_INIT] = (unsigned)sim_below(&w, 4);
    unsigned tot = 0; for (unsigned x : wt) tot += x;
    unsigned p_invalid = (unsigned)sim_below(&w, 30);
    bool faults = (cfg == "fault" || cfg == "lockstep-fault" || cfg == "ctxfault" || cfg == "fault-long");
    // C13/C18 model a *deterministic* converter: in a given plan the conversion of a given address either always works
    // or always fails with one code and one buffer behaviour ("in this world that domain does not convert").  The outcome
    // is then still a function of (mode, tld_check, allow_tld, address), which is what these properties are about;
    // transient failures - the same address failing once and working later - belong to C19.
    unsigned frate = faults ? 2 + (unsigned)sim_below(&f, 59) : 0;       // percent of pool addresses that do not convert
    std::map<string, Op> world;
    // (always at the FIRST converter call of a validation: "this name does not convert" is a fact about the name; a failure of
    //  the second or third call only would make the outcome depend on how many calls a build happens to make)
    if (frate) for (auto &a : pool) if (!world.count(a)) { Op w0; if (sim_below(&f, 100) < frate) { draw_fault(f, w0); w0.f_at = 1; } world[a] = w0; }
    // failing allocations inside eav_is_email (C13, one fault plan in three): the unchanged tree asserts; whatever the
    // library does instead must be what a fresh object does under the same failure
    sim_rng af = sim_derive(rs, 7);
    sim_rng tf = sim_derive(rs, 11);     // which eav_free steps are made twice (own stream: the other choices of a seed stay as they were)
    unsigned afrate = (prop == "C13" && cfg == "fault" && sim_below(&af, 3) == 0) ? 3 + (unsigned)sim_below(&af, 25) : 0;
    unsigned sfrate = (cfg == "ctxfault") ? 5 + (unsigned)sim_below(&f, 50) : 0;
    // most objects start by confirming a mode, so that work happens
    for (int o = 0; o < p.nobj; o++) {
        if (sim_below(&w, 10) < 8) {
            Op a; a.k = SET_RFC; a.o = o; a.v = (long long)sim_below(&w, 4); p.ops.push_back(a);
            Op b; b.k = SETUP; b.o = o; p.ops.push_back(b);
        }
    }
    while ((int)p.ops.size() < len) {
        unsigned x = (unsigned)sim_below(&w, tot); int k = 0;
        while (x >= wt[k]) { x -= wt[k]; k++; }
        Op op; op.k = (Kind)k; op.o = (int)sim_below(&w, p.nobj);
        switch (op.k) {
        case SET_RFC: op.v = draw_rfc(w, p_invalid);
            // a mode change is usually meant to be confirmed
            p.ops.push_back(op);
            if (sim_below(&w, 100) < 70) { Op s; s.k = SETUP; s.o = op.o; if (sfrate && sim_below(&f, 100) < sfrate) s.sf = 1 + (int)sim_below(&f, 2); p.ops.push_back(s); }
            continue;
        case SET_TLD: op.v = (long long)sim_below(&w, 2); break;
        case SET_ALLOW: op.v = draw_allow(w); break;
        case SETUP: if (sfrate && sim_below(&f, 100) < sfrate) op.sf = 1 + (int)sim_below(&f, 2); break;
        case IS_EMAIL: op.a = pick(w, pool); if (frate) { const Op &w0 = world[op.a]; op.f_on = w0.f_on; op.f_code = w0.f_code; op.f_buf = w0.f_buf; op.f_at = w0.f_at; }
            // double fault: should the validation (re-)initialise the backend - after a failed conversion, say - that fails too
            if (sfrate && sim_below(&f, 100) < sfrate / 2) op.sf = 1 + (int)sim_below(&f, 2);
            if (afrate && sim_below(&af, 100) < afrate) {
                // a failing allocation inside this call; the object is retired afterwards, so give it a mode again
                { static const int MF[] = { 1, 1, 1, 2, 3 }; op.mf = MF[sim_below(&af, 5)]; } p.ops.push_back(op);
                Op a2; a2.k = SET_RFC; a2.o = op.o; a2.v = (long long)sim_below(&af, 4); p.ops.push_back(a2);
                Op b2; b2.k = SETUP; b2.o = op.o; p.ops.push_back(b2);
                continue;
            }
            break;
        case FREE_INIT: op.tw = sim_below(&tf, 3) == 0 ? 1 : 0; break;
        default: break;
        }
        p.ops.push_back(op);
    }
    return p;
}

// C19: validation runs in mode 6531 with conversion faults
static Plan gen_c19_base(uint64_t rs, sim_rng &w, int nval) {
    Plan p; p.prop = "C19"; p.nobj = 1 + (int)sim_below(&w, 2); p.fill = sim_mix64(rs ^ 0xF1);
    vector<string> pool = draw_pool(w, "C19", 2 + (int)sim_below(&w, 30));
    for (int o = 0; o < p.nobj; o++) {
        Op a; a.k = SET_RFC; a.o = o; a.v = 3; p.ops.push_back(a);
        Op b; b.k = SETUP; b.o = o; p.ops.push_back(b);
    }
    unsigned p_low = (unsigned)sim_below(&w, 40), p_dom = (unsigned)sim_below(&w, 25), p_tld = (unsigned)sim_below(&w, 20);
    unsigned p_err = (unsigned)sim_below(&w, 30), p_allow = (unsigned)sim_below(&w, 10), p_mode = (unsigned)sim_below(&w, 8);
    int nv = 0;
    while (nv < nval) {
        Op op; op.o = (int)sim_below(&w, p.nobj);
        unsigned c = (unsigned)sim_below(&w, 100);
        if (c < p_tld) { op.k = SET_TLD; op.v = (long long)sim_below(&w, 2); p.ops.push_back(op); continue; }
        c = (unsigned)sim_below(&w, 100);
        if (c < p_allow) { op.k = SET_ALLOW; op.v = draw_allow(w); p.ops.push_back(op); continue; }
        c = (unsigned)sim_below(&w, 100);
        if (c < p_mode) {   // leave 6531 and come back: the failure must not poison a later mode either
            op.k = SET_RFC; op.v = (long long)sim_below(&w, 4); p.ops.push_back(op);
            Op s; s.k = SETUP; s.o = op.o; p.ops.push_back(s); continue;
        }
        c = (unsigned)sim_below(&w, 100);
        if (c < p_low) { op.k = LOW_6531; op.a = pick(w, pool); op.v = (long long)sim_below(&w, 2); }
        else if (c < p_low + p_dom) { op.k = LOW_UTF8DOM; op.a = pick(w, G.domains); op.v = (long long)sim_below(&w, 2); }
        else { op.k = IS_EMAIL; op.a = pick(w, pool); }
        p.ops.push_back(op); nv++;
        if (sim_below(&w, 100) < p_err) { Op e; e.k = ERRSTR; e.o = op.o; p.ops.push_back(e); }
    }
    return p;
}

static Plan gen_c19(const string &cfg, uint64_t seed, long long index) {
    if (cfg == "single") {
        // index -> (base sequence, validation position, code, buffer mode), mixed radix
        long long i = index;
        int buf = (int)(i % 3); i /= 3;
        int at = 1 + (int)(i % 2); i /= 2;          // first or second IDN-library call of the validation
        int code = IDN2_CODES[i % N_CODES]; i /= N_CODES;
        int pos = (int)(i % 50); i /= 50;
        long long base = i;
        uint64_t rs = sim_mix64(seed ^ sim_mix64((uint64_t)base * 0x9E3779B97F4A7C15ULL + 1901));
        sim_rng w = sim_derive(rs, 1);
        int nval = 1 + (int)sim_below(&w, 50);
        Plan p = gen_c19_base(rs, w, nval);
        p.cfg = cfg; p.seed = seed; p.index = index;
        // attach the fault to the (pos mod nval)-th validation
        int want = pos % nval, seen = 0;
        for (auto &op : p.ops) if (op.k == IS_EMAIL || op.k == LOW_6531 || op.k == LOW_UTF8DOM) {
            if (seen == want) { op.f_on = true; op.f_code = code; op.f_buf = buf; op.f_at = at; break; }
            seen++;
        }
        return p;
    }
    uint64_t rs = sim_mix64(seed ^ sim_mix64((uint64_t)index * 0x9E3779B97F4A7C15ULL + 1902));
    sim_rng w = sim_derive(rs, 1), f = sim_derive(rs, 2);
    int nval = 1 + (int)sim_below(&w, 50);
    Plan p = gen_c19_base(rs, w, nval);
    p.cfg = cfg; p.seed = seed; p.index = index;
    if (cfg == "multi") {
        unsigned frate = 2 + (unsigned)sim_below(&f, 59);
        for (auto &op : p.ops) if ((op.k == IS_EMAIL || op.k == LOW_6531 || op.k == LOW_UTF8DOM) && sim_below(&f, 100) < frate) draw_fault(f, op);
    }
    return p;
}

// small-scope systematic part: index -> sequence over a 21-symbol alphabet, all lengths 1..6 in order
static const int SMALL_NSYM = 21;
static long long small_count(int maxlen) { long long t = 0, p = 1; for (int l = 1; l <= maxlen; l++) { p *= SMALL_NSYM; t += p; } return t; }
static Plan gen_small(const string &prop, uint64_t seed, long long index) {
    Plan p; p.prop = prop; p.cfg = "small"; p.seed = seed; p.index = index; p.nobj = 1;
    p.fill = sim_mix64(seed ^ (uint64_t)index ^ 0x5a11);
    sim_rng r = sim_derive(seed, 0x5a11);
    // six addresses: three fixed discriminating ones, three drawn from the pools by the seed
    string addr[6] = { "user@example.com", "\xd0\xb8\xd0\xb2\xd0\xb0\xd0\xbd@\xd0\xbf\xd0\xbe\xd1\x87\xd1\x82\xd0\xb0.\xd1\x80\xd1\x84", "u@\xe2\x98\x95.de",
                       pick(r, G.gen), pick(r, G.emails), G.pairs.empty() ? pick(r, G.idn) : G.pairs[sim_below(&r, G.pairs.size())].first };
    int L = 1; long long base = 0, pw = SMALL_NSYM;
    while (L < 6 && index >= base + pw) { base += pw; pw *= SMALL_NSYM; L++; }
    long long d = index - base;
    for (int i = 0; i < L; i++) {
        int sym = (int)(d % SMALL_NSYM); d /= SMALL_NSYM;
        Op op; op.o = 0;
        if (sym < 5) { static const long long RV[5] = { 0, 1, 2, 3, 99 }; op.k = SET_RFC; op.v = RV[sym]; }
        else if (sym == 5) op.k = SETUP;
        else if (sym < 8) { op.k = SET_TLD; op.v = sym - 6; }
        else if (sym < 11) { static const long long AV[3] = { 0, 0x7fc, 1 << 4 }; op.k = SET_ALLOW; op.v = AV[sym - 8]; }
        else if (sym < 17) { op.k = IS_EMAIL; op.a = addr[sym - 11]; }
        else if (sym == 17) op.k = ERRSTR;
        else if (sym == 18) { op.k = FREE_INIT; op.tw = (int)(i & 1); }
        else {  // two further addresses whose conversion always fails in this world (never used unfaulted)
            op.k = IS_EMAIL; op.a = sym == 19 ? "u@\xd1\x84\xd0\xb0\xd0\xb9\xd0\xbb.\xd1\x80\xd1\x84" : "\xd0\xb8@\xd0\xbc\xd0\xb8\xd1\x80.\xd1\x80\xd1\x84";
            op.f_on = true; op.f_code = sym == 19 ? -100 : -304; op.f_buf = sym == 19 ? 1 : 0;
        }
        p.ops.push_back(op);
    }
    return p;
}

// corpus sweep (C18 lock-step): every pool address in every mode with tld_check off and on through ONE reused object
static Plan gen_corpus(const string &prop, uint64_t seed, long long index) {
    Plan p; p.prop = prop; p.cfg = "corpus"; p.seed = seed; p.index = index; p.nobj = 1; p.fill = sim_mix64(seed ^ (uint64_t)index ^ 0xc0);
    const size_t CH = 20; size_t lo = (size_t)(index / 2) * CH;
    p.cs = (int)(index % 2);        // every chunk once per converter style
    for (int m = 0; m < 4; m++) for (int t = 0; t < 2; t++) {
        Op a; a.k = SET_RFC; a.v = m; p.ops.push_back(a);
        Op b; b.k = SETUP; p.ops.push_back(b);
        Op c; c.k = SET_TLD; c.v = t; p.ops.push_back(c);
        for (size_t i = lo; i < lo + CH && i < G.all.size(); i++) { Op e; e.k = IS_EMAIL; e.a = G.all[i]; p.ops.push_back(e); }
    }
    return p;
}

static Plan gen_plan(const string &prop, const string &cfg, uint64_t seed, long long index) {
    if (cfg == "tldsweep") { Plan p; p.prop = prop; p.cfg = cfg; p.seed = seed; p.index = index; p.fill = sim_mix64(seed ^ (uint64_t)index ^ 0x5EE9); return p; }
    if (cfg == "small") return gen_small(prop, seed, index);
    if (cfg == "corpus") return gen_corpus(prop, seed, index);
    if (prop == "C19") return gen_c19(cfg, seed, index);
    return gen_history(prop, cfg, seed, index);
}

// ------------------------------------------------------------------ execution
struct Outcome {
    int ret = -99, errcode = -99; string errstr; bool errstr_null = false;
    int present = 0, v4 = 0, v6 = 0, dom = 0, rc = 0; long idn_rc = 0;
    int has_extra = 0; bool lp_null = true, dm_null = true; string lpart, domain;
    // converter view
    int conv_calls = 0, conv_fired = 0, conv_has_last = 0, conv_last = 0;
    bool aborted = false, alloc_fired = false;
    string af_sig;      // what an attached allocation fault met: fired or not, and the sizes the library asked for up to it
    string str() const {
        char b[256];
        if (aborted) return "ABORTED inside the library (abort/assert)";
        snprintf(b, sizeof b, "ret=%d ec=%d res=%d v4=%d v6=%d dom=%d rc=%d idn_rc=%ld", ret, errcode, present, v4, v6, dom, rc, idn_rc);
        string s = b; s += " msg=" + (errstr_null ? string("(null)") : errstr);
        if (has_extra) s += " lpart=" + (lp_null ? string("(null)") : lpart) + " domain=" + (dm_null ? string("(null)") : domain);
        return s;
    }
    string neutral() const {   // comparable across backends
        char b[256];
        if (aborted) return "ABORTED";
        bool idn_ok = (idn_rc == (conv_has_last ? shim_map_code(conv_last) : 0));
        snprintf(b, sizeof b, "ret=%d ec=%d res=%d v4=%d v6=%d dom=%d rc=%d conv=%d/%d idnrc_ok=%d", ret, errcode, present, v4, v6, dom, rc,
                 conv_has_last, conv_has_last ? conv_last : 0, (int)idn_ok);
        string s = b;
        if (errcode == shim_idn_error_errcode()) {
            const char *m = shim_idn_strerror(shim_map_code(conv_last));
            s += string(" idnmsg_ok=") + ((!errstr_null && m && errstr == m) ? "1" : "0");
        } else s += " msg=" + (errstr_null ? string("(null)") : errstr);
        if (has_extra) s += " lpart=" + (lp_null ? string("(null)") : lpart) + " domain=" + (dm_null ? string("(null)") : domain);
        return s;
    }
    bool same(const Outcome &o, string &why) const {
        if (aborted != o.aborted) { why = "abort inside the library"; return false; }
        if (aborted) return true;
        if (ret != o.ret) { why = "return value"; return false; }
        if (errcode != o.errcode) { why = "errcode"; return false; }
        if (errstr_null != o.errstr_null || errstr != o.errstr) { why = "eav_errstr text"; return false; }
        if (present != o.present) { why = "result presence"; return false; }
        if (v4 != o.v4 || v6 != o.v6 || dom != o.dom) { why = "result flags"; return false; }
        if (rc != o.rc) { why = "result->rc"; return false; }
        if (idn_rc != o.idn_rc) { why = "result->idn_rc"; return false; }
        if (has_extra && (lp_null != o.lp_null || dm_null != o.dm_null || lpart != o.lpart || domain != o.domain)) { why = "result->lpart/domain"; return false; }
        return true;
    }
};

struct Viol { string cls, detail; int op_index = -1; };

struct Stats {
    uint64_t plans = 0, ops = 0, kind[NKINDS] = { 0 }, is_email_exec = 0, is_email_skipped = 0, refs = 0;
    uint64_t fault_attached = 0, fault_fired = 0, fired_buf[3] = { 0 }, sf_attached = 0, sf_fired = 0, af_attached = 0, af_fired = 0, af_aborted = 0, af_not_comparable = 0, pristine_cmp = 0, pristine_plans = 0, pristine_failed = 0;
    std::map<int, uint64_t> fired_code;
    uint64_t mode_switch[5][4] = { { 0 } };     // from (none=4) -> to, followed by an executed IS_EMAIL
    uint64_t setup_ok = 0, setup_invalid = 0, free_init = 0, free_twice = 0, errstr_checked = 0, errstr_after_other = 0;
    uint64_t ctx_created = 0, ctx_destroyed = 0, ctx_by_setup = 0, ctx_by_free = 0, roundtrip_6531 = 0;
    uint64_t ledger_checks = 0, outcome_cmp = 0, contain_checks = 0, low_exec = 0, steps = 0;
    std::set<uint32_t> trans;                   // abstract transition classes
    std::set<uint64_t> plan_hashes, nontrivial;
    std::set<int> errcodes_seen;
    std::set<string> distinct_addr;
};
static Stats ST;

struct ObjModel {
    int confirmed = -1; bool initialized = false;   // model of the backend flag (idnkit context live)
    int rfc = 3, tld = 1; long long allow = 0;
    bool has_last = false; Outcome last; bool failed_setup_since = false; string backend_msg;
    int last_class = 0;        // 0 none 1 ok 2 syntax-error 3 idn-error 4 tld-rejected
    int pending_switch_from = -2;
};

struct RefKey {
    int mode, tld; long long allow; string a; bool f_on; int code, buf; int at = 1; int mf = 0; int sf = 0;
    bool operator<(const RefKey &o) const {
        if (sf != o.sf) return sf < o.sf;
        if (mf != o.mf) return mf < o.mf;
        if (at != o.at) return at < o.at;
        if (mode != o.mode) return mode < o.mode;
        if (tld != o.tld) return tld < o.tld;
        if (allow != o.allow) return allow < o.allow;
        if (f_on != o.f_on) return f_on < o.f_on;
        if (code != o.code) return code < o.code;
        if (buf != o.buf) return buf < o.buf;
        return a < o.a;
    }
};

struct Exec {
    // release builds (-DNDEBUG) compile the library's "allocation succeeded" asserts out: a failed allocation is then a NULL
    // dereference on the unchanged tree, which no caller can observe as an outcome - allocation faults are not injected there
    static Plan strip_mf(Plan q) { if (shim_has_ndebug()) for (auto &o : q.ops) o.mf = 0; return q; }
    const Plan plan_own;
    const Plan &plan;
    bool want_log;
    vector<string> log, nlog;
    uint64_t h_local = SIM_FNV_INIT, h_neutral = SIM_FNV_INIT;
    vector<Viol> viols;
    vector<void *> store;
    vector<ObjModel> M;
    size_t esz;
    bool is_idnkit;
    int def_rfc = 0, def_tld = 0, def_allow = 0;
    std::map<RefKey, Outcome> ref_pre;
    bool pristine_pending = false, pristine_got = false;   // the same references, taken by a process that never used the library before, are on their way
    std::map<RefKey, Outcome> pristine_map; const std::map<RefKey, Outcome> *pristine = nullptr;
    bool refs_only = false;                                 // (that process: stop after the pre-pass)
    bool nontrivial_cmp = false, any_state_change = false, any_fired = false, any_sf_fired = false;
    vector<char *> abuf;        // reused caller buffers (amode 1/2): same pointer, new content, stale tail after the NUL
    char *tight = nullptr;      // amode 0: exact-size block, freed after the call (ASan sees any read past the terminator)
    // errno as the caller left it: a value from the plan's stream before every library call.  A library that tests errno
    // without clearing it first (strtoul + ERANGE ...) then answers differently on the reused and on the fresh object.
    sim_rng errno_rng = sim_derive(plan.fill, 0xE44);
    void poison_errno() { static const int EV[] = { 0, ERANGE, EINVAL, ENOMEM, EINTR, EDOM, EILSEQ, 9999 }; errno = EV[sim_below(&errno_rng, 8)]; }
    const char *caller_copy(int o, const string &a) {
        if (plan.amode == 0) { tight = (char *)malloc(a.size() + 1); memcpy(tight, a.data(), a.size()); tight[a.size()] = 0; return tight; }
        size_t slot = plan.amode == 2 ? 0 : (size_t)o;
        if (abuf.size() <= slot) abuf.resize(slot + 1, nullptr);
        if (!abuf[slot]) { abuf[slot] = (char *)malloc(8192); memset(abuf[slot], '#', 8192); }
        size_t n = a.size() < 8191 ? a.size() : 8191;
        memcpy(abuf[slot], a.data(), n); abuf[slot][n] = 0;
        return abuf[slot];
    }
    void caller_done() { if (tight) { free(tight); tight = nullptr; } }
    int cur_op = -1;

    // release builds (-DNDEBUG) compile the library's "allocation succeeded" asserts out: a failed allocation is then a NULL
    // dereference on the unchanged tree, which no caller can observe as an outcome - allocation faults are not injected there
    Exec(const Plan &p, bool l) : plan_own(strip_mf(p)), plan(plan_own), want_log(l) { esz = shim_eav_size(); is_idnkit = !strcmp(shim_backend(), "idnkit"); }

    void rec(const string &local, const string &neutral) {
        h_local = sim_fnv1a(h_local, local.data(), local.size()); h_local = sim_fnv1a(h_local, "\n", 1);
        h_neutral = sim_fnv1a(h_neutral, neutral.data(), neutral.size()); h_neutral = sim_fnv1a(h_neutral, "\n", 1);
        if (want_log) { log.push_back(local); nlog.push_back(neutral); }
        ST.steps++;
    }
    void viol(const string &cls, const string &detail) {
        Viol v; v.cls = cls; v.detail = detail; v.op_index = cur_op; viols.push_back(v);
        rec("VIOLATION " + cls + " | " + detail, "VIOLATION " + cls);
    }
    void drain_reports() {
        for (int i = 0; i < g_sim_nreports && i < 8; i++) viol(g_sim_report_cls[i], g_sim_report_detail[i]);
        g_sim_nreports = 0;
    }

    // live caller objects are roots of the reachability rule: what an object holds is not a leak of some other object, even
    // if the block was first allocated on behalf of that other one (a library-level free list recycles records)
    vector<char> obj_alive;
    void set_roots(int exclude) {
        sim_ledger_roots_clear();
        for (size_t i = 0; i < store.size(); i++) if ((int)i != exclude && i < obj_alive.size() && obj_alive[i]) sim_ledger_root_add(store[i], esz);
    }

    void *new_obj_mem() {
        void *m = malloc(esz);              // harness allocation (tag NONE): ASan guards its bounds
        sim_fill(m, esz);
        return m;
    }

    void capture(void *e, int ret, Outcome &o) {
        o.ret = ret; o.errcode = shim_errcode(e);
        const char *m = shim_errstr(e);
        o.errstr_null = (m == nullptr); if (m) o.errstr = m;
        shim_res r; shim_get_result(e, &r);
        fill_res(r, o);
    }
    void fill_res(const shim_res &r, Outcome &o) {
        o.present = r.present; o.v4 = r.is_ipv4; o.v6 = r.is_ipv6; o.dom = r.is_domain; o.rc = r.rc; o.idn_rc = r.idn_rc;
        o.has_extra = r.has_extra;
        if (r.has_extra) { o.lp_null = !r.lpart; o.dm_null = !r.domain; if (r.lpart) o.lpart = r.lpart; if (r.domain) o.domain = r.domain; }
        o.conv_calls = g_sim_conv.calls; o.conv_fired = g_sim_conv.fired; o.conv_has_last = g_sim_conv.has_last; o.conv_last = g_sim_conv.last_rc;
    }

    // fresh-object reference execution
    Outcome run_ref(const RefKey &k) {
        Outcome o;
        void *e = new_obj_mem();
        g_sim_tag = SIM_TAG_REF;
        shim_init(e);
        shim_set_rfc(e, k.mode);
        int s = shim_setup(e);
        if (s != 0) { g_sim_tag = SIM_TAG_NONE; viol("harness:reference-setup-failed", "eav_setup on a fresh object failed for a valid mode"); free(e); return o; }
        shim_set_tld_check(e, k.tld); shim_set_allow(e, (int)k.allow);
        sim_conv_begin(k.f_on, k.code, k.buf); sim_conv_at(k.at);
        g_sim_tag = SIM_TAG_NONE;
        const char *ap = caller_copy(0, k.a);     // reference runs hold the address like the history does
        g_sim_tag = SIM_TAG_REF;
        poison_errno();
        int ret = 0;
        g_sim_ctx.sf_armed = k.sf; g_sim_ctx.sf_fired = 0;      // a backend (re-)initialisation inside the validation would fail too
        bool ok_call = guarded_is_email(e, ap, k.a.size(), k.mf, &ret);
        g_sim_ctx.sf_armed = 0;
        if (!ok_call) {
            // the fresh object aborts under this fault: that is the reference outcome; the object is abandoned as it is
            g_sim_tag = SIM_TAG_NONE; g_sim_in_free = 0;
            o.aborted = true; o.alloc_fired = g_sim_af_fired != 0; if (k.mf) o.af_sig = af_signature();
            if (!k.mf) viol("C13:abort-inside-library", "a fresh object aborts in eav_is_email('" + k.a + "') although nothing was made to fail: " + g_abort_what);
            caller_done();
            sim_ledger_forget(SIM_TAG_REF); sim_ctx_forget(SIM_TAG_REF);
            drain_reports();
            free(e); ST.refs++;
            return o;
        }
        capture(e, ret, o); o.alloc_fired = g_sim_af_fired != 0; if (k.mf) o.af_sig = af_signature();
        g_sim_tag = SIM_TAG_NONE;
        caller_done();
        g_sim_tag = SIM_TAG_REF;
        g_sim_in_free = 1; shim_free(e); g_sim_in_free = 0;
        g_sim_tag = SIM_TAG_NONE;
        set_roots(-1);
        if (sim_ledger_unreachable_live(SIM_TAG_REF) != 0) {
            viol("C13:eav_free-leaves-allocation", "fresh object: blocks still allocated after eav_free and not reachable from any library static");
            sim_ledger_retag(SIM_TAG_REF, 999);
        }
        if (sim_ctx_live_for_tag(SIM_TAG_REF) != 0) {
            viol("C18:context-not-released-by-eav_free", "fresh object: resolver context still live after eav_free");
            sim_ctx_retag(SIM_TAG_REF, 999);
        }
        drain_reports();
        free(e);
        ST.refs++;
        return o;
    }

    static int outcome_class(const Outcome &o) {
        if (o.ret == 1) return 1;
        if (o.errcode == shim_idn_error_errcode()) return 3;
        if (o.rc > 0) return 4;
        return 2;
    }

    void check_containment(const char *what, const Op &op, int ret_is_email /* -1 n/a */, const Outcome &o) {
        // the attached fault fired: the failure must be contained (C19)
        ST.contain_checks++;
        long bc = shim_map_code(op.f_code);
        const char *msg = shim_idn_strerror(bc);
        int idnerr = shim_idn_error_errcode();
        char b[200];
        if (ret_is_email >= 0) {
            if (o.ret != 0) { viol("C19:idn-failure-not-rejected", string(what) + ": address accepted although the converter failed"); }
            if (o.errcode != idnerr) { snprintf(b, sizeof b, "%s: errcode %d instead of EEAV_IDN_ERROR", what, o.errcode); viol("C19:wrong-errcode-for-idn-failure", b); }
            if (o.errstr_null || !msg || o.errstr != msg) { viol("C19:wrong-message-for-idn-failure", string(what) + ": eav_errstr is '" + (o.errstr_null ? "(null)" : o.errstr) + "', the IDN library says '" + (msg ? msg : "(null)") + "'"); }
        }
        if (!o.present) { viol("C19:no-result-record", what); return; }
        if (o.rc != -idnerr) { snprintf(b, sizeof b, "%s: result->rc %d instead of -EEAV_IDN_ERROR", what, o.rc); viol("C19:wrong-rc-for-idn-failure", b); }
        if (o.idn_rc != bc) { snprintf(b, sizeof b, "%s: result->idn_rc %ld, converter returned %ld", what, o.idn_rc, bc); viol("C19:idn_rc-not-stored", b); }
        if (o.dom || o.v4 || o.v6) viol("C19:treated-as-domain-after-idn-failure", string(what) + ": is_domain/is_ipv4/is_ipv6 set although the conversion failed");
        if (o.has_extra && (!o.lp_null || !o.dm_null)) viol("C19:treated-as-domain-after-idn-failure", string(what) + ": lpart/domain set although the conversion failed");
    }

    // blocks reachable from the object's current result record
    std::set<void *> result_blocks(int o) {
        shim_res r; shim_get_result(store[o], &r);
        std::set<void *> want;
        if (r.present) { want.insert(r.self); if (r.has_extra) { if (r.lpart) want.insert((void *)r.lpart); if (r.domain) want.insert((void *)r.domain); } }
        return want;
    }
    // "the previous result record is released by the next call": nothing that belonged to the previous record may
    // still be live unless it is (again) part of the current record; and the current record must be live memory
    void check_ledger_obj(int o, const char *when, const std::set<void *> &prev) {
        ST.ledger_checks++;
        std::set<void *> want = result_blocks(o);
        char b[160];
        // a block of the previous record that is still allocated must be either part of the current record again or held
        // by the library itself (a free list behind a static or thread-local): lost means allocated and reachable from neither
        set_roots(-1);
        void *lost[64]; int n = sim_ledger_unreachable_list(-2, lost, 64);
        std::set<void *> unreachable(lost, lost + std::min(n, 64));
        for (void *p : prev) if (unreachable.count(p) && !want.count(p)) {
            snprintf(b, sizeof b, "%s: a block of the previous result record is still allocated and no longer reachable from the object", when);
            viol("C13:previous-allocation-not-released", b); break;
        }
        // the current record must not be memory the library has released (storage the ledger does not know - a static or
        // thread-local record - is the sanitizer's business)
        for (void *w : want) if (sim_ledger_state(w) == 2) { snprintf(b, sizeof b, "%s: result record points to a block that has been released", when); viol("C13:result-points-to-released-block", b); break; }
    }

    void run() {
        if (!setlocale(LC_ALL, plan.locale.c_str())) setlocale(LC_ALL, "C");
        g_sim_conv_style = plan.cs;
        sim_ledger_reset(plan.fill);
        sim_ctx_reset();
        sim_conv_begin(0, 0, 0);
        M.assign(plan.nobj, ObjModel());
        store.clear();
        rec(string("PLAN prop=") + plan.prop + " cfg=" + plan.cfg + " nobj=" + std::to_string(plan.nobj) + " ops=" + std::to_string(plan.ops.size()) + " backend=" + shim_backend(),
            string("PLAN nobj=") + std::to_string(plan.nobj) + " ops=" + std::to_string(plan.ops.size()));
        for (int o = 0; o < plan.nobj; o++) {
            void *e = new_obj_mem(); store.push_back(e); obj_alive.push_back(1);
            g_sim_tag = o; shim_init(e); g_sim_tag = SIM_TAG_NONE;
            if (o == 0) { def_rfc = shim_get_rfc(e); def_tld = shim_get_tld_check(e); def_allow = shim_get_allow(e); }
            else if (shim_get_rfc(e) != def_rfc || shim_get_tld_check(e) != def_tld || shim_get_allow(e) != def_allow)
                viol("C13:eav_init-defaults-differ", "two eav_init calls on differently filled memory produced different settings");
            M[o].rfc = def_rfc; M[o].tld = def_tld; M[o].allow = def_allow;
        }
        // ---- dry model pass: which reference outcomes will be needed
        vector<RefKey> keys; keys.reserve(plan.ops.size());
        {
            vector<ObjModel> D = M;
            for (auto &op : plan.ops) {
                ObjModel &m = D[op.o];
                switch (op.k) {
                case SET_RFC: m.rfc = (int)op.v; break;
                case SET_TLD: m.tld = op.v ? 1 : 0; break;
                case SET_ALLOW: m.allow = (int)op.v; break;
                case SETUP:
                    if (m.rfc >= 0 && m.rfc <= 3) {
                        if (m.rfc == 3) {
                            if (is_idnkit && op.sf && !m.initialized) { m.confirmed = -1; }
                            else { m.confirmed = 3; m.initialized = true; }
                        } else { m.confirmed = m.rfc; m.initialized = false; }
                    }
                    break;
                case IS_EMAIL:
                    if (m.confirmed >= 0) {
                        keys.push_back(RefKey{ m.confirmed, m.tld, m.allow, op.a, op.f_on, op.f_code, op.f_buf, op.f_at, op.mf, op.sf });
                        if (op.mf) { m = ObjModel(); m.rfc = def_rfc; m.tld = def_tld; m.allow = def_allow; }     // retired after the call, whatever it did
                    }
                    break;
                case LOW_6531:
                    if (m.confirmed == 3) keys.push_back(RefKey{ 3, op.v ? 1 : 0, -1, op.a, op.f_on, op.f_code, op.f_buf, op.f_at });
                    break;
                case LOW_UTF8DOM:
                    if (m.confirmed == 3 && !op.f_on) keys.push_back(RefKey{ 3, op.v ? 1 : 0, -1, "a@" + op.a, false, 0, 0 });
                    break;
                case FREE_INIT: m = ObjModel(); m.rfc = def_rfc; m.tld = def_tld; m.allow = def_allow; break;
                default: break;
                }
            }
        }
        // ---- pre-pass: fresh-object outcomes before any history
        // in REVERSE order of first use: the reference for a late operation is taken with as little process history as
        // possible - state the library keeps per thread or per process (not per object) reaches a fresh object too, and a
        // pre-pass that replayed the history's own order would be wrong in exactly the same way
        for (size_t i = keys.size(); i-- > 0; ) if (!ref_pre.count(keys[i])) ref_pre[keys[i]] = run_ref(keys[i]);
        rec("REFS " + std::to_string(ref_pre.size()), "REFS " + std::to_string(ref_pre.size()));
        if (refs_only) { for (void *e : store) free(e); store.clear(); for (char *b : abuf) free(b); abuf.clear(); return; }
        // ---- a fresh object must not know what this PROCESS did before: compare with the pristine process's answers
        if (pristine_pending) { pristine_pending = false; extern bool pristine_response_fwd(std::map<RefKey, Outcome> &); if (pristine_response_fwd(pristine_map)) { pristine = &pristine_map; pristine_got = true; } }
        if (pristine) for (auto &kv : ref_pre) {
            auto it = pristine->find(kv.first);
            if (it == pristine->end()) continue;
            ST.pristine_cmp++;
            if (kv.first.mf && kv.second.af_sig != it->second.af_sig) continue;
            string why;
            if (!kv.second.same(it->second, why)) {
                viol("C13:fresh-object-outcome-changed-by-history", "a fresh object decides '" + kv.first.a + "' differently in this process than in a process that never used the library before (" + why + "): here {" + kv.second.str() + "} pristine process {" + it->second.str() + "}");
                break;
            }
        }

        // ---- the history
        for (size_t i = 0; i < plan.ops.size() && viols.empty(); i++) {
            cur_op = (int)i;
            step(plan.ops[i]);
            drain_reports();
        }
        cur_op = -1;
        // ---- post-pass: fresh objects must still behave as before the history
        if (viols.empty()) {
            for (auto &kv : ref_pre) {
                Outcome again = run_ref(kv.first);
                string why;
                if (!again.same(kv.second, why)) {
                    viol("C13:fresh-object-outcome-changed-by-history", "a fresh object decides '" + kv.first.a + "' differently after the history than before it (" + why + "): before {" + kv.second.str() + "} after {" + again.str() + "}");
                    break;
                }
            }
        }
        // ---- closing eav_free of every object: everything released exactly once
        for (int o = 0; o < plan.nobj; o++) {
            g_sim_tag = o; g_sim_in_free = 1; shim_free(store[o]); g_sim_in_free = 0; g_sim_tag = SIM_TAG_NONE;
            drain_reports();
            obj_alive[o] = 0; set_roots(-1);
            if (viols.empty()) {
                if (sim_ledger_unreachable_live(o) != 0) viol("C13:eav_free-leaves-allocation", "blocks allocated for the object are still allocated after the closing eav_free and not reachable from any library static");
                if (sim_ctx_live_for_tag(o) != 0) viol("C18:context-not-released-by-eav_free", "resolver context still live after the closing eav_free");
            }
        }
        set_roots(-1);
        if (viols.empty() && sim_ledger_unreachable_live(-2) != 0) viol("C13:allocation-never-released", "library blocks still allocated at the end of the history and not reachable from any library static");
        if (viols.empty() && g_sim_ctx.live != 0) viol("C18:context-never-released", "resolver contexts still live at the end of the history");
        ST.ctx_created += g_sim_ctx.created; ST.ctx_destroyed += g_sim_ctx.destroyed;
        ST.ctx_by_setup += g_sim_ctx.destroyed_by_setup; ST.ctx_by_free += g_sim_ctx.destroyed_by_free;
        for (void *e : store) free(e);
        store.clear();
        for (char *b : abuf) free(b);
        abuf.clear();
        // allocation counts are not part of the hashed record: a one-time allocation behind a library static (lazy index)
        // happens in whichever plan runs first in the process
        rec("END ctx=" + std::to_string(g_sim_ctx.created) + "/" + std::to_string(g_sim_ctx.destroyed), "END");
        if (want_log) log.push_back("  (allocations by the library in this plan: " + std::to_string(sim_ledger_allocs()) + ", releases: " + std::to_string(sim_ledger_frees()) + ")");
    }

    void note_trans(const ObjModel &m, const Op &op) {
        uint32_t t = (uint32_t)(m.confirmed + 1) | ((uint32_t)m.last_class << 3) | ((uint32_t)(m.has_last ? 1 : 0) << 6) | ((uint32_t)op.k << 7) | ((uint32_t)(op.f_on ? 1 : 0) << 11);
        ST.trans.insert(t);
    }

    void step(const Op &op) {
        ObjModel &m = M[op.o];
        void *e = store[op.o];
        char b[320];
        ST.ops++; ST.kind[op.k]++;
        note_trans(m, op);
        string pre = string(KNAME[op.k]) + " o" + std::to_string(op.o);
        switch (op.k) {
        case SET_RFC:
            shim_set_rfc(e, (int)op.v); m.rfc = (int)op.v; any_state_change = true;
            rec(pre + " v=" + std::to_string(op.v), pre + " v=" + std::to_string(op.v));
            break;
        case SET_TLD:
            shim_set_tld_check(e, op.v ? 1 : 0); m.tld = op.v ? 1 : 0; any_state_change = true;
            rec(pre + " v=" + std::to_string(op.v), pre + " v=" + std::to_string(op.v));
            break;
        case SET_ALLOW:
            shim_set_allow(e, (int)op.v); m.allow = (int)op.v; any_state_change = true;
            rec(pre + " v=" + std::to_string((int)op.v), pre + " v=" + std::to_string((int)op.v));
            break;
        case SETUP: {
            any_state_change = true;
            bool valid = (m.rfc >= 0 && m.rfc <= 3);
            bool sf_expected = is_idnkit && op.sf && valid && m.rfc == 3 && !m.initialized;
            if (op.sf) ST.sf_attached++;
            g_sim_ctx.sf_armed = op.sf; g_sim_ctx.sf_fired = 0;
            g_sim_tag = op.o;
            int r = shim_setup(e);
            g_sim_tag = SIM_TAG_NONE;
            bool fired = g_sim_ctx.sf_fired != 0;
            g_sim_ctx.sf_armed = 0;
            if (fired) { ST.sf_fired++; any_sf_fired = true; }
            snprintf(b, sizeof b, " rfc=%d ret=%d%s", m.rfc, r, fired ? " backend-init-fault" : "");
            rec(pre + b, pre + b);
            if (fired != sf_expected) { viol("C18:backend-init-state-diverges-from-history", fired ? "eav_setup initialised the IDN backend again although the call history says a context is already live" : "eav_setup did not initialise the IDN backend although the call history says none is live"); break; }
            if (fired) {
                if (r == 0) viol("C18:backend-init-failure-not-reported", "eav_setup returned 0 although the backend failed to initialise");
                m.confirmed = -1; m.failed_setup_since = true; m.initialized = false;
                const char *t = shim_errstr(e); m.backend_msg = t ? t : "";
                break;
            }
            if (valid) {
                if (r != 0) { snprintf(b, sizeof b, "eav_setup returned %d for valid rfc %d", r, m.rfc); viol("C13:eav_setup-return-value", b); break; }
                int from = m.confirmed < 0 ? 4 : m.confirmed;
                if (from != m.rfc) m.pending_switch_from = from;
                if (m.confirmed == 3 && m.rfc != 3) ST.roundtrip_6531++;
                m.confirmed = m.rfc; m.initialized = (m.rfc == 3);
                ST.setup_ok++;
            } else {
                if (r == 0) { snprintf(b, sizeof b, "eav_setup returned 0 (success) for invalid rfc %d", m.rfc); viol("C13:eav_setup-return-value", b); break; }
                m.failed_setup_since = true;
                ST.setup_invalid++;
            }
            if (is_idnkit) {
                int live = sim_ctx_live_for_tag(op.o);
                int want = m.initialized ? 1 : 0;
                if (live != want) { snprintf(b, sizeof b, "after eav_setup (mode %d) the object owns %d live resolver contexts, expected %d", m.confirmed, live, want); viol(live > want ? "C18:context-not-released-by-eav_setup" : "C18:context-missing-after-eav_setup", b); }
            }
        } break;
        case IS_EMAIL: {
            if (m.confirmed < 0) { ST.is_email_skipped++; rec(pre + " skipped (no confirmed mode)", pre + " skipped"); break; }
            RefKey k{ m.confirmed, m.tld, m.allow, op.a, op.f_on, op.f_code, op.f_buf, op.f_at, op.mf, op.sf };
            if (op.f_on) ST.fault_attached++;
            if (op.mf) ST.af_attached++;
            sim_conv_begin(op.f_on, op.f_code, op.f_buf); sim_conv_at(op.f_at);
            const char *ap = caller_copy(op.o, op.a);
            std::set<void *> prev_blocks = result_blocks(op.o);
            g_sim_tag = op.o;
            poison_errno();
            int ret = 0; Outcome o;
            g_sim_ctx.sf_armed = op.sf; g_sim_ctx.sf_fired = 0;
            bool ok_call = guarded_is_email(e, ap, op.a.size(), op.mf, &ret);
            if (op.sf) { ST.sf_attached++; if (g_sim_ctx.sf_fired) { ST.sf_fired++; any_sf_fired = true; } }
            g_sim_ctx.sf_armed = 0;
            if (!ok_call) {
                g_sim_tag = SIM_TAG_NONE; g_sim_in_free = 0;
                o.aborted = true; o.alloc_fired = g_sim_af_fired != 0; if (op.mf) o.af_sig = af_signature();
                caller_done();
                ST.is_email_exec++; ST.af_aborted++; if (o.alloc_fired) ST.af_fired++;
                rec(pre + " mode=" + std::to_string(m.confirmed) + " mf=" + std::to_string(op.mf) + " a=<" + op.a + "> " + o.str(), pre + " mode=" + std::to_string(m.confirmed) + " " + o.neutral());
                auto it0 = ref_pre.find(k);
                if (it0 == ref_pre.end()) { viol("harness:missing-reference", "dry model pass and execution disagree"); break; }
                ST.outcome_cmp++; nontrivial_cmp = true;
                if (!op.mf) viol("C13:abort-inside-library", "eav_is_email('" + op.a + "') aborts although nothing was made to fail: " + g_abort_what);
                else if (it0->second.af_sig != o.af_sig) ST.af_not_comparable++;     // the fault met other allocations on the fresh object (see below)
                else if (!it0->second.aborted) viol(o.alloc_fired ? "C13:outcome-differs-from-fresh-object" : "C13:abort-inside-library", "eav_is_email('" + op.a + "') aborts on the reused object, a fresh object with the same settings" + (op.mf ? " under the same allocation failure" : "") + " does not: fresh {" + it0->second.str() + "}");
                // the object is abandoned as the abort left it
                sim_ledger_forget(op.o); sim_ctx_forget(op.o);
                sim_fill(e, esz);
                g_sim_tag = op.o; shim_init(e); g_sim_tag = SIM_TAG_NONE;
                m = ObjModel(); m.rfc = def_rfc; m.tld = def_tld; m.allow = def_allow;
                break;
            }
            capture(e, ret, o); o.alloc_fired = g_sim_af_fired != 0; if (op.mf) o.af_sig = af_signature();
            if (o.alloc_fired) ST.af_fired++;
            g_sim_tag = SIM_TAG_NONE;
            caller_done();
            ST.is_email_exec++; ST.errcodes_seen.insert(o.errcode);
            if (ST.distinct_addr.size() < 200000) ST.distinct_addr.insert(op.a);
            if (m.pending_switch_from >= 0) { ST.mode_switch[m.pending_switch_from][m.confirmed]++; m.pending_switch_from = -2; }
            if (o.conv_fired) { ST.fault_fired++; ST.fired_buf[op.f_buf % 3]++; ST.fired_code[op.f_code]++; any_fired = true; }
            rec(pre + " mode=" + std::to_string(m.confirmed) + " tld=" + std::to_string(m.tld) + " allow=" + std::to_string((int)m.allow) + (o.conv_fired ? " FAULT" : "") + " a=<" + op.a + "> " + o.str(),
                pre + " mode=" + std::to_string(m.confirmed) + (o.conv_fired ? " FAULT " : " ") + o.neutral());
            auto it = ref_pre.find(k);
            if (it == ref_pre.end()) { viol("harness:missing-reference", "dry model pass and execution disagree"); break; }
            ST.outcome_cmp++; nontrivial_cmp = true;
            string why;
            // an attached allocation failure is the same event on both objects only if it met the same allocations: a record
            // served from a library-level free list needs none, and then the k-th allocation is a different one
            if (op.mf && o.af_sig != it->second.af_sig) ST.af_not_comparable++;
            else if (!o.same(it->second, why)) {
                viol("C13:outcome-differs-from-fresh-object", "eav_is_email('" + op.a + "') on the reused object differs from a fresh object with the same settings in " + why + ": reused {" + o.str() + "} fresh {" + it->second.str() + "}");
            }
            // (whether the converter was actually consulted may legitimately differ between the reused and the fresh object:
            //  a per-object memo that answers a repeated address without converting again is not a violation)
            if (o.conv_fired) check_containment("eav_is_email", op, 1, o);
            check_ledger_obj(op.o, "after eav_is_email", prev_blocks);
            m.has_last = true; m.last = o; m.failed_setup_since = false; m.last_class = outcome_class(o);
            if (op.mf) {
                // an allocation fault was attached: the object is retired whatever happened (the plan's meaning must not
                // depend on how the library reacted), through the ordinary eav_free so that nothing may be left behind
                g_sim_tag = op.o; g_sim_in_free = 1; shim_free(e); g_sim_in_free = 0; g_sim_tag = SIM_TAG_NONE;
                drain_reports();
                set_roots(op.o);
                if (sim_ledger_unreachable_live(op.o) != 0) viol("C13:eav_free-leaves-allocation", "after a failed allocation inside eav_is_email, eav_free leaves blocks of the object allocated");
                sim_ledger_retag(op.o, 999);
                if (sim_ctx_live_for_tag(op.o) != 0) { viol("C18:context-not-released-by-eav_free", "resolver context still live after eav_free"); sim_ctx_retag(op.o, 999); }
                sim_fill(e, esz);
                g_sim_tag = op.o; shim_init(e); g_sim_tag = SIM_TAG_NONE;
                m = ObjModel(); m.rfc = def_rfc; m.tld = def_tld; m.allow = def_allow;
            }
        } break;
        case ERRSTR: {
            g_sim_tag = op.o;
            const char *t = shim_errstr(e);
            g_sim_tag = SIM_TAG_NONE;
            string s = t ? t : "(null)";
            rec(pre + " -> " + s, pre + (m.has_last && m.last.errcode == shim_idn_error_errcode() ? " -> (idn message)" : " -> " + s));
            if (!m.has_last) break;
            ST.errstr_checked++;
            bool ok = (t ? (!m.last.errstr_null && m.last.errstr == t) : m.last.errstr_null);
            if (!ok && m.failed_setup_since) {
                const char *inv = shim_static_errtext(shim_invalid_rfc_errcode());
                if (t && inv && !strcmp(t, inv)) ok = true;
                if (t && !m.backend_msg.empty() && m.backend_msg == t) ok = true;
            }
            if (!ok) viol("C13:eav_errstr-not-about-last-call", "eav_errstr returns '" + s + "' but the most recent eav_is_email on this object reported '" + (m.last.errstr_null ? "(null)" : m.last.errstr) + "'");
        } break;
        case READ_RESULT: {
            shim_res r; shim_get_result(e, &r);
            Outcome o; fill_res(r, o);
            snprintf(b, sizeof b, " present=%d rc=%d v4=%d v6=%d dom=%d", o.present, o.rc, o.v4, o.v6, o.dom);
            rec(pre + b, pre + b);
        } break;
        case FREE_INIT: {
            any_state_change = true;
            g_sim_tag = op.o; g_sim_in_free = 1; shim_free(e); g_sim_in_free = 0; g_sim_tag = SIM_TAG_NONE;
            drain_reports();
            set_roots(op.o);
            if (sim_ledger_unreachable_live(op.o) != 0) { viol("C13:eav_free-leaves-allocation", "blocks allocated for the object are still allocated after eav_free and not reachable from any library static"); }
            sim_ledger_retag(op.o, 999);
            if (sim_ctx_live_for_tag(op.o) != 0) { viol("C18:context-not-released-by-eav_free", "resolver context still live after eav_free"); sim_ctx_retag(op.o, 999); }
            // a second eav_free of the same object has nothing left to release (the idnkit copy keeps its context handle
            // after destroying it, so there the step is legal only while no context was ever created)
            if (op.tw && !(is_idnkit && m.initialized)) {
                g_sim_tag = op.o; g_sim_in_free = 1; shim_free(e); g_sim_in_free = 0; g_sim_tag = SIM_TAG_NONE;
                drain_reports(); ST.free_twice++;
            }
            sim_fill(e, esz);
            g_sim_tag = op.o; shim_init(e); g_sim_tag = SIM_TAG_NONE;
            if (shim_get_rfc(e) != def_rfc || shim_get_tld_check(e) != def_tld || shim_get_allow(e) != def_allow)
                viol("C13:eav_init-defaults-differ", "re-initialised object has different settings than a first-time initialised one");
            m = ObjModel(); m.rfc = def_rfc; m.tld = def_tld; m.allow = def_allow;
            ST.free_init++;
            rec(pre, pre);
        } break;
        case LOW_6531: {
            if (m.confirmed != 3) { rec(pre + " skipped", pre + " skipped"); break; }
            if (op.f_on) ST.fault_attached++;
            sim_conv_begin(op.f_on, op.f_code, op.f_buf); sim_conv_at(op.f_at);
            g_sim_tag = 101;
            void *rp = shim_low_6531(e, op.a.c_str(), op.a.size(), op.v ? 1 : 0);
            shim_res r; shim_res_from_ptr(rp, &r);
            Outcome o; fill_res(r, o);
            ST.low_exec++;
            if (o.conv_fired) { ST.fault_fired++; ST.fired_buf[op.f_buf % 3]++; ST.fired_code[op.f_code]++; any_fired = true; }
            snprintf(b, sizeof b, " tld=%d%s res=%d v4=%d v6=%d dom=%d rc=%d idn_rc=%ld", (int)(op.v ? 1 : 0), o.conv_fired ? " FAULT" : "", o.present, o.v4, o.v6, o.dom, o.rc, o.idn_rc);
            rec(pre + b + " a=<" + op.a + ">", pre + b);
            if (o.conv_fired) check_containment("is_6531_email", op, -1, o);
            RefKey k{ 3, op.v ? 1 : 0, -1, op.a, op.f_on, op.f_code, op.f_buf, op.f_at };
            auto it = ref_pre.find(k);
            if (it != ref_pre.end()) {
                const Outcome &f = it->second; ST.outcome_cmp++; nontrivial_cmp = true;
                if (o.present != f.present || o.rc != f.rc || o.idn_rc != f.idn_rc || o.v4 != f.v4 || o.v6 != f.v6 || o.dom != f.dom)
                    viol("C19:low-level-result-differs-from-eav_is_email", "is_6531_email('" + op.a + "') result record differs from the record eav_is_email produces on a fresh object");
            }
            // exactly the record (and its strings) may be live
            {
                set_roots(-1);
                int n = sim_ledger_unreachable_live(101);
                int want = r.present ? 1 + (r.has_extra ? (r.lpart ? 1 : 0) + (r.domain ? 1 : 0) : 0) : 0;
                if (n > want) { snprintf(b, sizeof b, "is_6531_email left %d live blocks, result record accounts for %d", n, want); viol("C19:leak-on-conversion-path", b); sim_ledger_retag(101, 999); }
            }
            shim_result_free(rp);
            g_sim_tag = SIM_TAG_NONE;
            if (sim_ledger_unreachable_live(101) != 0) { viol("C19:leak-on-conversion-path", "blocks still allocated after eav_result_free"); }
            sim_ledger_retag(101, 999);
        } break;
        case LOW_UTF8DOM: {
            if (m.confirmed != 3) { rec(pre + " skipped", pre + " skipped"); break; }
            if (op.f_on) ST.fault_attached++;
            sim_conv_begin(op.f_on, op.f_code, op.f_buf); sim_conv_at(op.f_at);
            g_sim_tag = 101;
            long idnrc = 0;
            int rc = shim_low_utf8_domain(e, &idnrc, op.a.c_str(), op.a.c_str() + op.a.size(), op.v ? 1 : 0);
            g_sim_tag = SIM_TAG_NONE;
            ST.low_exec++;
            bool fired = g_sim_conv.fired != 0;
            if (fired) { ST.fault_fired++; ST.fired_buf[op.f_buf % 3]++; ST.fired_code[op.f_code]++; any_fired = true; }
            snprintf(b, sizeof b, " tld=%d%s rc=%d idn_rc=%ld", (int)(op.v ? 1 : 0), fired ? " FAULT" : "", rc, idnrc);
            rec(pre + b + " d=<" + op.a + ">", pre + b);
            if (fired) {
                ST.contain_checks++;
                long bc = shim_map_code(op.f_code);
                if (rc != -shim_idn_error_errcode()) { snprintf(b, sizeof b, "is_utf8_domain returned %d instead of -EEAV_IDN_ERROR", rc); viol("C19:wrong-rc-for-idn-failure", b); }
                if (idnrc != bc) { snprintf(b, sizeof b, "is_utf8_domain stored idn rc %ld, converter returned %ld", idnrc, bc); viol("C19:idn_rc-not-stored", b); }
            } else {
                RefKey k{ 3, op.v ? 1 : 0, -1, "a@" + op.a, false, 0, 0 };
                auto it = ref_pre.find(k);
                if (it != ref_pre.end()) {
                    ST.outcome_cmp++; nontrivial_cmp = true;
                    if (it->second.rc != rc) { snprintf(b, sizeof b, "is_utf8_domain('%s') = %d but eav_is_email('a@%s') records rc %d", op.a.c_str(), rc, op.a.c_str(), it->second.rc); viol("C19:low-level-result-differs-from-eav_is_email", b); }
                }
            }
            set_roots(-1);
            if (sim_ledger_unreachable_live(101) != 0) { viol("C19:leak-on-conversion-path", "is_utf8_domain left a live block (converter output not released)"); }
            sim_ledger_retag(101, 999);
        } break;
        default: break;
        }
    }
};

// "tldsweep": a fast front end for one family of history dependence - look-up shortcuts (hashed or otherwise abbreviated keys)
// that answer for a label they never compared.  One object validates an address under every TLD of the table (whatever
// cache exists is now full), then tens of thousands of addresses whose last label is NOT in the table; each must be
// decided exactly like such an address was decided before the warm-up.  No per-probe reference runs, no logging: volume is
// the point.  A discrepancy is handed back as an ordinary history plan (set-up, the warm-up validations, the probe), which
// the ordinary executor, oracle and shrinker then take over.
static uint64_t g_sweep_probes = 0;
static bool run_sweep(const Plan &p, vector<Viol> &viols, Plan &derived) {
    sim_rng r = sim_derive(p.seed ^ sim_mix64((uint64_t)p.index * 0x9E3779B97F4A7C15ULL + 77), 1);
    int nt = shim_tld_count();
    std::set<string> member;
    for (int i = 0; i < nt; i++) { string n = shim_tld_name(i); for (auto &c : n) if (c >= 'A' && c <= 'Z') c = (char)(c + 32); member.insert(n); }
    // ASCII modes only: in mode 6531 an unknown label may also fail in the IDN conversion, which is not what is swept here
    int mode = (int)sim_below(&r, 3);
    size_t esz = shim_eav_size();
    void *e = malloc(esz); memset(e, 0xa5, esz);
    sim_ledger_reset(p.fill); sim_conv_begin(0, 0, 0);
    g_sim_tag = 0;
    shim_init(e); shim_set_rfc(e, mode);
    bool ok = shim_setup(e) == 0;
    shim_set_tld_check(e, 1);
    auto call = [&](const string &a, int &ret, int &ec, int &rc) { ret = shim_is_email(e, a.c_str(), a.size()); ec = shim_errcode(e); shim_res rr; shim_get_result(e, &rr); rc = rr.present ? rr.rc : -9999; };
    int b_ret = 0, b_ec = 0, b_rc = 0;
    string base_label = "qzxqjvkqz";
    if (ok) call("u@m." + base_label, b_ret, b_ec, b_rc);
    vector<string> warm; vector<std::array<int, 3>> warm_out((size_t)nt, std::array<int, 3>{ 0, 0, 0 });
    if (ok) {
        vector<int> order(nt); for (int i = 0; i < nt; i++) order[i] = i;
        for (int i = nt; i > 1; i--) std::swap(order[i - 1], order[sim_below(&r, (uint64_t)i)]);
        for (int i : order) { string a = string("u@m.") + shim_tld_name(i); int x, y, z; call(a, x, y, z); warm.push_back(a); warm_out[i] = { x, y, z }; }
    }
    long nprobes = 20000; bool found = false; string bad, extra_before; char b[320];
    vector<std::pair<string, string>> revalidated;      // (real TLD address, the unknown neighbour probed just before it)
    static const char AL[] = "abcdefghijklmnopqrstuvwxyz0123456789-";
    for (long i = 0; ok && i < nprobes && !found; i++) {
        string l; unsigned k = (unsigned)sim_below(&r, 4); int from = -1;
        if (k < 2) { size_t n = 2 + sim_below(&r, 11); for (size_t j = 0; j < n; j++) l += AL[sim_below(&r, j == 0 || j + 1 == n ? 26 : 37)]; }
        else if (k == 2) { from = (int)sim_below(&r, (uint64_t)nt); l = shim_tld_name(from); unsigned m = (unsigned)sim_below(&r, 3); if (m == 0 && !l.empty()) l[sim_below(&r, l.size())] = AL[sim_below(&r, 26)]; else if (m == 1) l += AL[sim_below(&r, 26)]; else if (l.size() > 2) l.erase(sim_below(&r, l.size()), 1); }
        else { size_t n = 2 + sim_below(&r, 9); for (size_t j = 0; j < n; j++) { char c = AL[sim_below(&r, 26)]; l += (char)(sim_below(&r, 2) ? c - 32 : c); } }
        string low = l; for (auto &c : low) if (c >= 'A' && c <= 'Z') c = (char)(c + 32);
        if (member.count(low) || l.size() < 2 || l[0] == '-' || l.back() == '-' || (l.size() > 3 && l[2] == '-' && l[3] == '-')) continue;
        { string d = "m." + l; if (shim_is_special_domain(d.c_str(), d.c_str() + d.size()) != 0) continue; }      // test, invalid, localhost, onion ...: decided before the table
        int ret, ec, rc; call("u@m." + l, ret, ec, rc); g_sweep_probes++;
        if (ret != b_ret || ec != b_ec || rc != b_rc) {
            found = true; bad = "u@m." + l;
            snprintf(b, sizeof b, "': ret=%d errcode=%d rc=%d, an unknown label before the warm-up: ret=%d errcode=%d rc=%d", ret, ec, rc, b_ret, b_ec, b_rc);
        } else if (from >= 0) {
            // the unknown neighbour of a real TLD was just looked up: the real one must still be decided as in the warm-up
            string t = string("u@m.") + shim_tld_name(from); int r2, e2, c2; call(t, r2, e2, c2); g_sweep_probes++;
            revalidated.push_back({ t, "u@m." + l });       // part of the history a later discrepancy may depend on
            if (r2 != warm_out[from][0] || e2 != warm_out[from][1] || c2 != warm_out[from][2]) {
                found = true; bad = t; extra_before = "u@m." + l;
                snprintf(b, sizeof b, "' (right after its unknown neighbour '%s'): ret=%d errcode=%d rc=%d, in the warm-up: ret=%d errcode=%d rc=%d", l.c_str(), r2, e2, c2, warm_out[from][0], warm_out[from][1], warm_out[from][2]);
            }
        }
    }
    g_sim_in_free = 1; shim_free(e); g_sim_in_free = 0;
    g_sim_tag = SIM_TAG_NONE;
    free(e);
    if (!found) return true;
    Viol v; v.cls = "C13:outcome-differs-from-fresh-object"; v.detail = "after validating an address under every TLD of the table, '" + bad + b; viols.push_back(v);
    derived = Plan(); derived.prop = p.prop; derived.cfg = "nofault"; derived.seed = p.seed; derived.index = p.index; derived.fill = p.fill; derived.nobj = 1; derived.amode = 0;
    Op a; a.k = SET_RFC; a.v = mode; derived.ops.push_back(a);
    Op s; s.k = SETUP; derived.ops.push_back(s);
    Op t; t.k = SET_TLD; t.v = 1; derived.ops.push_back(t);
    for (auto &w : warm) { Op o; o.k = IS_EMAIL; o.a = w; derived.ops.push_back(o); }
    // every validation of a KNOWN label made since (they hit, and refresh, whatever the library remembers); the unknown probes
    // in between are left out - tens of thousands - and the ordinary executor has the last word on whether that matters
    for (auto &rv : revalidated) { if (rv.first == bad && rv.second == extra_before) break; Op o; o.k = IS_EMAIL; o.a = rv.first; derived.ops.push_back(o); }
    if (!extra_before.empty()) { Op o; o.k = IS_EMAIL; o.a = extra_before; derived.ops.push_back(o); }
    Op pr; pr.k = IS_EMAIL; pr.a = bad; derived.ops.push_back(pr);
    return true;
}

// ------------------------------------------------------------------ pristine-process references
// "A fresh object" is only as fresh as the process around it: state the library keeps per thread or per process reaches it
// too.  A zygote is forked off before this process makes its first library call; for every plan it forks a child that has
// never used the library, lets it take the plan's reference outcomes and sends them back.
static int g_zy_req = -1, g_zy_resp = -1; static pid_t g_zy_pid = -1;
static void put_u32(string &b, uint32_t v) { b.append((const char *)&v, 4); }
static void put_i64(string &b, long long v) { b.append((const char *)&v, 8); }
static void put_str(string &b, const string &x) { put_u32(b, (uint32_t)x.size()); b += x; }
struct Rd { const string &b; size_t at = 0; bool ok = true;
    uint32_t u32() { uint32_t v = 0; if (at + 4 > b.size()) { ok = false; return 0; } memcpy(&v, b.data() + at, 4); at += 4; return v; }
    long long i64() { long long v = 0; if (at + 8 > b.size()) { ok = false; return 0; } memcpy(&v, b.data() + at, 8); at += 8; return v; }
    string str() { uint32_t n = u32(); if (!ok || at + n > b.size()) { ok = false; return ""; } string x = b.substr(at, n); at += n; return x; } };
static bool write_all(int fd, const char *p, size_t n) { while (n) { ssize_t k = write(fd, p, n); if (k <= 0) { if (k < 0 && errno == EINTR) continue; return false; } p += k; n -= (size_t)k; } return true; }
static bool read_all(int fd, char *p, size_t n) { while (n) { ssize_t k = read(fd, p, n); if (k <= 0) { if (k < 0 && errno == EINTR) continue; return false; } p += k; n -= (size_t)k; } return true; }
static string pack_refs(const std::map<RefKey, Outcome> &m) {
    string b; put_u32(b, (uint32_t)m.size());
    for (auto &kv : m) {
        const RefKey &k = kv.first; const Outcome &o = kv.second;
        put_i64(b, k.mode); put_i64(b, k.tld); put_i64(b, k.allow); put_str(b, k.a); put_i64(b, k.f_on); put_i64(b, k.code); put_i64(b, k.buf); put_i64(b, k.at); put_i64(b, k.mf);
        put_i64(b, o.ret); put_i64(b, o.errcode); put_str(b, o.errstr); put_i64(b, o.errstr_null); put_i64(b, o.present); put_i64(b, o.v4); put_i64(b, o.v6); put_i64(b, o.dom); put_i64(b, o.rc); put_i64(b, o.idn_rc);
        put_i64(b, o.has_extra); put_i64(b, o.lp_null); put_i64(b, o.dm_null); put_str(b, o.lpart); put_str(b, o.domain); put_i64(b, o.aborted); put_i64(b, o.alloc_fired); put_str(b, o.af_sig);
    }
    return b;
}
static bool unpack_refs(const string &b, std::map<RefKey, Outcome> &m) {
    Rd r{ b }; uint32_t n = r.u32();
    for (uint32_t i = 0; i < n && r.ok; i++) {
        RefKey k; Outcome o;
        k.mode = (int)r.i64(); k.tld = (int)r.i64(); k.allow = r.i64(); k.a = r.str(); k.f_on = r.i64() != 0; k.code = (int)r.i64(); k.buf = (int)r.i64(); k.at = (int)r.i64(); k.mf = (int)r.i64();
        o.ret = (int)r.i64(); o.errcode = (int)r.i64(); o.errstr = r.str(); o.errstr_null = r.i64() != 0; o.present = (int)r.i64(); o.v4 = (int)r.i64(); o.v6 = (int)r.i64(); o.dom = (int)r.i64(); o.rc = (int)r.i64(); o.idn_rc = (long)r.i64();
        o.has_extra = (int)r.i64(); o.lp_null = r.i64() != 0; o.dm_null = r.i64() != 0; o.lpart = r.str(); o.domain = r.str(); o.aborted = r.i64() != 0; o.alloc_fired = r.i64() != 0; o.af_sig = r.str();
        if (r.ok) m[k] = o;
    }
    return r.ok;
}
static void zygote_child_loop(int req, int resp) {
    // the next pristine child is forked while the previous plan is still being executed by the worker: it then waits for its request
    for (;;) {
        pid_t c = fork();
        if (c == 0) {
            uint32_t n = 0;
            if (!read_all(req, (char *)&n, 4)) _exit(7);          // the worker is gone
            string js(n, '\0');
            if (n && !read_all(req, &js[0], n)) _exit(7);
            string out;
            g_abort_armed = true;
            if (setjmp(g_abort_jmp) == 0) {
                Plan p = plan_from_json(sj::parse(js));
                Exec *ex = new Exec(p, false); ex->refs_only = true; ex->run();
                out = pack_refs(ex->ref_pre);
            } else out.clear();
            uint32_t len = (uint32_t)out.size();
            string msg((const char *)&len, 4); msg += out;
            write_all(resp, msg.data(), msg.size());
            _exit(0);
        }
        int st = 0; if (c > 0) waitpid(c, &st, 0);
        if (c > 0 && WIFEXITED(st) && WEXITSTATUS(st) == 7) _exit(0);
        if (c <= 0 || !WIFEXITED(st) || WEXITSTATUS(st) != 0) { uint32_t len = 0xFFFFFFFFu; write_all(resp, (const char *)&len, 4); if (c <= 0) _exit(0); }
    }
}
static void zygote_start() {
    int a[2], b[2];
    if (pipe(a) != 0 || pipe(b) != 0) return;
    fflush(stdout); fflush(stderr);
    pid_t z = fork();
    if (z < 0) return;
    if (z == 0) { close(a[1]); close(b[0]); zygote_child_loop(a[0], b[1]); _exit(0); }
    close(a[0]); close(b[1]); g_zy_req = a[1]; g_zy_resp = b[0]; g_zy_pid = z;
}
static bool pristine_request(const Plan &p) {
    if (g_zy_req < 0) return false;
    string js = sj::dump(plan_to_json(p)); uint32_t n = (uint32_t)js.size();
    if (!write_all(g_zy_req, (const char *)&n, 4) || !write_all(g_zy_req, js.data(), js.size())) { g_zy_req = -1; return false; }
    return true;
}
static bool pristine_response(std::map<RefKey, Outcome> &m) {
    uint32_t len = 0;
    if (!read_all(g_zy_resp, (char *)&len, 4)) { g_zy_req = -1; return false; }
    if (len == 0xFFFFFFFFu) return false;          // the pristine child died: whatever killed it will kill the ordinary pre-pass too
    string buf(len, '\0');
    if (len && !read_all(g_zy_resp, &buf[0], len)) { g_zy_req = -1; return false; }
    return len > 0 && unpack_refs(buf, m);
}

bool pristine_response_fwd(std::map<RefKey, Outcome> &m) { return pristine_response(m); }

// Runs one plan; returns true when no violation.  Sanitizer reports kill the process
// (exit 77) and are classified by the driver from the B line in flight.
static vector<string> g_last_nlog;
static bool run_plan(const Plan &p, bool want_log, vector<Viol> &viols, uint64_t &hl, uint64_t &hn, vector<string> *logout, bool count_stats = true) {
    Exec *ex = new Exec(p, want_log);
    // asked for now, collected after this process's own pre-pass: the two run side by side
    // (one plan in three, chosen by the plan's own index so that a replay decides the same way: a pristine child costs about
    // as much as the plan itself)
    bool asked = g_zy_req >= 0 && p.ops.size() <= 3000 && (p.index % 3) == 0 && pristine_request(p);
    ex->pristine_pending = asked;
    g_abort_armed = true;
    int j = setjmp(g_abort_jmp);
    if (j == 0) {
        ex->run();
    } else {
        g_sim_tag = SIM_TAG_NONE; g_sim_in_free = 0;
        ex->viol(j == 1 ? "C13:abort-inside-library" : "assertion-failure-inside-library", g_abort_what);
    }
    g_abort_armed = false;
    if (ex->pristine_pending) { std::map<RefKey, Outcome> drop; pristine_response(drop); ex->pristine_pending = false; }     // not collected (the plan ended early): keep the pipe in step
    if (count_stats && asked) { if (ex->pristine_got) ST.pristine_plans++; else ST.pristine_failed++; }
    viols = ex->viols; hl = ex->h_local; hn = ex->h_neutral;
    if (logout) *logout = ex->log;
    g_last_nlog = ex->nlog;
    if (count_stats) {
        ST.plans++;
        string pj = sj::dump(plan_to_json(p));
        uint64_t ph = sim_fnv1a(SIM_FNV_INIT, pj.data(), pj.size());
        // the plan hash must not depend on index/seed bookkeeping: hash ops only
        string oj; { sj::Value a = sj::Value::array(); for (auto &op : p.ops) a.push(op_to_json(op)); oj = sj::dump(a) + std::to_string(p.nobj); }
        ph = sim_fnv1a(SIM_FNV_INIT, oj.data(), oj.size());
        ST.plan_hashes.insert(ph);
        bool faultcfg = (p.cfg == "fault" || p.cfg == "single" || p.cfg == "multi" || p.cfg == "lockstep-fault" || p.cfg == "fault-long");
        if (p.cfg == "small" || p.cfg == "corpus") faultcfg = false;
        bool sfcfg = (p.cfg == "ctxfault");
        if (ex->any_state_change && ex->nontrivial_cmp && (!faultcfg || ex->any_fired) && (!sfcfg || ex->any_sf_fired)) ST.nontrivial.insert(ph);
    }
    bool dead = (j != 0);
    delete ex;
    return !dead;
}

// ------------------------------------------------------------------ stats output
static void write_hashes(const char *path) {
    if (!path || !*path) return;
    FILE *f = fopen(path, "wb");
    if (!f) return;
    for (uint64_t h : ST.plan_hashes) { uint64_t v = h & ~1ULL; fwrite(&v, 8, 1, f); }
    for (uint64_t h : ST.nontrivial) { uint64_t v = h | 1ULL; fwrite(&v, 8, 1, f); }   // low bit set: also non-trivial
    fclose(f);
}

static sj::Value stats_json() {
    sj::Value j = sj::Value::object();
    j.set("plans", ST.plans); j.set("ops", ST.ops); j.set("steps", ST.steps);
    sj::Value k = sj::Value::object();
    for (int i = 0; i < NKINDS; i++) k.set(KNAME[i], ST.kind[i]);
    j.set("ops_by_kind", k);
    j.set("is_email_executed", ST.is_email_exec); j.set("is_email_skipped_no_mode", ST.is_email_skipped);
    j.set("reference_executions", ST.refs); j.set("outcome_comparisons", ST.outcome_cmp);
    j.set("containment_checks", ST.contain_checks); j.set("ledger_checks", ST.ledger_checks);
    j.set("low_level_calls", ST.low_exec);
    j.set("idn_fault_attached", ST.fault_attached); j.set("idn_fault_fired", ST.fault_fired);
    j.set("tld_sweep_probes", g_sweep_probes);
    j.set("plans_with_pristine_process_references", ST.pristine_plans); j.set("pristine_reference_comparisons", ST.pristine_cmp); j.set("pristine_process_failed", ST.pristine_failed);
    j.set("alloc_fault_attached", ST.af_attached); j.set("alloc_fault_fired", ST.af_fired); j.set("calls_aborted_inside_library", ST.af_aborted); j.set("alloc_fault_not_comparable_with_fresh_object", ST.af_not_comparable);
    sj::Value fb = sj::Value::object(); fb.set("A_output_untouched", ST.fired_buf[0]); fb.set("B_buffer_produced", ST.fired_buf[1]); fb.set("C_converted_then_failed", ST.fired_buf[2]);
    j.set("idn_fault_fired_by_buffer_mode", fb);
    sj::Value fc = sj::Value::object(); for (auto &kv : ST.fired_code) fc.set(std::to_string(kv.first), kv.second);
    j.set("idn_fault_fired_by_code", fc);
    j.set("setup_fault_attached", ST.sf_attached); j.set("setup_fault_fired", ST.sf_fired);
    j.set("setup_ok", ST.setup_ok); j.set("setup_invalid_rfc", ST.setup_invalid); j.set("free_init", ST.free_init); j.set("free_twice", ST.free_twice);
    j.set("errstr_checked", ST.errstr_checked);
    sj::Value ms = sj::Value::object();
    const char *mn[5] = { "822", "5321", "5322", "6531", "none" };
    for (int a = 0; a < 5; a++) for (int b = 0; b < 4; b++) if (ST.mode_switch[a][b]) ms.set(string(mn[a]) + "->" + mn[b], ST.mode_switch[a][b]);
    j.set("mode_switch_then_validated", ms);
    j.set("ctx_created", ST.ctx_created); j.set("ctx_destroyed", ST.ctx_destroyed);
    j.set("ctx_destroyed_by_setup", ST.ctx_by_setup); j.set("ctx_destroyed_by_free", ST.ctx_by_free);
    j.set("left_6531_for_ascii", ST.roundtrip_6531);
    sj::Value tr = sj::Value::array(); for (uint32_t t : ST.trans) tr.push(sj::Value::integer(t));
    j.set("transition_classes", tr);
    j.set("distinct_plans_this_worker", (long long)ST.plan_hashes.size());
    j.set("distinct_nontrivial_this_worker", (long long)ST.nontrivial.size());
    sj::Value ec = sj::Value::array(); for (int c : ST.errcodes_seen) ec.push(sj::Value::integer(c));
    j.set("errcodes_seen", ec);
    j.set("distinct_addresses", (long long)ST.distinct_addr.size());
    return j;
}

// ------------------------------------------------------------------ probe: pool adequacy
static int quick_decide(int mode, int tld, long long allow, const string &a, Outcome &o) {
    Plan p; Exec ex(p, false);
    sim_ledger_reset(1); sim_ctx_reset();
    RefKey k{ mode, tld, allow, a, false, 0, 0 };
    o = ex.run_ref(k);
    return o.ret;
}

static void probe() {
    sj::Value j = sj::Value::object();
    j.set("backend", shim_backend());
    j.set("pool_emails", (long long)G.emails.size()); j.set("pool_idn", (long long)G.idn.size());
    j.set("pool_generated", (long long)G.gen.size()); j.set("pool_converter_reaching", (long long)G.conv.size());
    j.set("pool_domains", (long long)G.domains.size()); j.set("pool_all", (long long)G.all.size());
    j.set("corpus_plans", (long long)(2 * ((G.all.size() + 19) / 20)));
    { sj::Value sc = sj::Value::array(); for (int l = 1; l <= 6; l++) sc.push(sj::Value::integer(small_count(l))); j.set("small_scope_plans_up_to_length", sc); }
    int def_allow = 0x2f8;
    std::set<string> uniq(G.all.begin(), G.all.end());
    long long disc[4][4] = { { 0 } }; std::set<int> codes; long long tldsens = 0, allowsens = 0, idnfail = 0;
    for (auto &a : uniq) {
        Outcome o[4][2];
        for (int m = 0; m < 4; m++) for (int t = 0; t < 2; t++) { quick_decide(m, t, def_allow, a, o[m][t]); codes.insert(o[m][t].errcode); }
        for (int m = 0; m < 4; m++) for (int n = m + 1; n < 4; n++) if (o[m][1].ret != o[n][1].ret || o[m][1].errcode != o[n][1].errcode) disc[m][n]++;
        if (o[3][0].ret != o[3][1].ret) tldsens++;
        Outcome x; quick_decide(3, 1, 0x7fc, a, x); if (x.ret != o[3][1].ret) allowsens++;
        Outcome y; quick_decide(3, 1, 0, a, y); if (y.ret != o[3][1].ret) allowsens++;
        if (o[3][1].errcode == shim_idn_error_errcode()) idnfail++;
    }
    sj::Value d = sj::Value::object();
    const char *mn[4] = { "822", "5321", "5322", "6531" };
    for (int m = 0; m < 4; m++) for (int n = m + 1; n < 4; n++) d.set(string(mn[m]) + "/" + mn[n], disc[m][n]);
    j.set("addresses_discriminating_mode_pair", d);
    j.set("addresses_sensitive_to_tld_check", tldsens); j.set("addresses_sensitive_to_allow_tld", allowsens);
    j.set("addresses_with_real_idn_failure", idnfail);
    sj::Value ec = sj::Value::array(); for (int c : codes) ec.push(sj::Value::integer(c));
    j.set("errcodes_reachable_default_allow", ec);
    j.set("distinct_addresses", (long long)uniq.size());
    printf("%s\n", sj::dump(j).c_str());
}

// ------------------------------------------------------------------ main
static const char *arg(int argc, char **argv, const char *name, const char *def) {
    for (int i = 1; i + 1 < argc; i++) if (!strcmp(argv[i], name)) return argv[i + 1];
    return def;
}
static bool flag(int argc, char **argv, const char *name) {
    for (int i = 1; i < argc; i++) if (!strcmp(argv[i], name)) return true;
    return false;
}

extern "C" __attribute__((used)) const char *__asan_default_options() {
    return "exitcode=77:detect_leaks=0:abort_on_error=0:allocator_may_return_null=1:detect_stack_use_after_return=0:quarantine_size_mb=8:thread_local_quarantine_size_kb=64";
}
extern "C" __attribute__((used)) const char *__ubsan_default_options() {
    return "halt_on_error=1:exitcode=77:print_stacktrace=1";
}

int main(int argc, char **argv) {
    if (argc < 2) { fprintf(stderr, "usage: hist gen|run|exec|probe ...\n"); return 64; }
    string mode = argv[1];
    g_repo = arg(argc, argv, "--repo", getenv("VERIF_REPO") ? getenv("VERIF_REPO") : "/repo");
    setvbuf(stdout, nullptr, _IOLBF, 0);
    string prop = arg(argc, argv, "--prop", "C13"), cfg = arg(argc, argv, "--cfg", "nofault");
    uint64_t seed = strtoull(arg(argc, argv, "--seed", "20261001"), nullptr, 10);
    // before the first library call of this process: the pristine-reference service (not for the volume sweep)
    if ((mode == "exec" || mode == "run") && cfg != "tldsweep" && !getenv("SIM_NO_ZYGOTE")) zygote_start();

    if (mode == "exec") {
        string path = arg(argc, argv, "--replay", "");
        sj::Value j = sj::parse(sj::read_file(path));
        bool log = flag(argc, argv, "--log");
        const sj::Value *plans = j.get("plans");
        vector<Plan> ps;
        if (plans) for (auto &e : plans->a) ps.push_back(plan_from_json(e));
        else ps.push_back(plan_from_json(j));
        bool need_pool = false;
        (void)need_pool;
        int bad = 0;
        for (size_t i = 0; i < ps.size(); i++) {
            vector<Viol> v; uint64_t hl, hn; vector<string> lg;
            printf("B %zu\n", i);
            bool alive = run_plan(ps[i], log, v, hl, hn, &lg);
            if (log) for (auto &l : lg) printf("L %zu %s\n", i, sj::dump(sj::Value::str(l)).c_str());
            if (log) for (auto &l : g_last_nlog) printf("M %zu %s\n", i, sj::dump(sj::Value::str(l)).c_str());
            if (v.empty()) printf("R %zu ok %016llx %016llx\n", i, (unsigned long long)hl, (unsigned long long)hn);
            else {
                bad++;
                printf("V %zu %016llx %s | op=%d | %s\n", i, (unsigned long long)hl, v[0].cls.c_str(), v[0].op_index, sj::dump(sj::Value::str(v[0].detail)).c_str());
            }
            if (!alive) { printf("X %zu process state untrusted after abort/assert, stopping\n", i); break; }
        }
        return bad ? 1 : 0;
    }

    build_pools();

    if (mode == "probe") { probe(); return 0; }

    if (mode == "grow") {
        // coverage-guided corpus growth: mutate pool addresses, keep what reaches an edge of the library that nothing before it
        // reached (all four modes, TLD check on and off, message and result read back).  Deterministic in (seed, iterations).
        long iters = strtol(arg(argc, argv, "--iters", "20000"), nullptr, 10);
        string out = arg(argc, argv, "--out", "");
        sim_rng r = sim_derive(seed, 0x6707);
        sim_ledger_reset(seed); sim_conv_begin(0, 0, 0);
        size_t esz = shim_eav_size();
        auto run = [&](const string &a) -> unsigned {
            g_sim_cov_new = 0;
            for (int m = 0; m < 4; m++) for (int t = 0; t < 2; t++) {
                void *e = malloc(esz); memset(e, 0xa5, esz);
                shim_init(e); shim_set_rfc(e, m);
                if (shim_setup(e) == 0) { shim_set_tld_check(e, t); (void)shim_is_email(e, a.c_str(), a.size()); (void)shim_errstr(e); shim_res rr; shim_get_result(e, &rr); }
                shim_free(e); free(e);
            }
            return g_sim_cov_new;
        };
        vector<string> corpus; { std::set<string> seen; for (auto &a : G.all) if (a.size() <= 4096 && seen.insert(a).second) corpus.push_back(a); }
        for (auto &a : corpus) run(a);
        unsigned base_edges = sim_cov_edges_hit();
        vector<string> added;
        for (long i = 0; i < iters; i++) {
            const string &b = (!added.empty() && sim_below(&r, 2)) ? added[sim_below(&r, added.size())] : corpus[sim_below(&r, corpus.size())];
            string m = mut::mutate(&r, b);
            if (sim_below(&r, 3) == 0) m = mut::mutate(&r, m);
            if (m.empty() || m.size() > 70000) continue;
            if (run(m) > 0) { added.push_back(m); if (added.size() >= 4000) break; }
        }
        sj::Value j = sj::Value::array(); for (auto &a : added) j.push(sj::Value::str(a));
        if (!out.empty()) { FILE *f = fopen(out.c_str(), "wb"); if (f) { string d = sj::dump(j); fwrite(d.data(), 1, d.size(), f); fclose(f); } }
        printf("{\"backend\":\"%s\",\"iterations\":%ld,\"seed_corpus\":%zu,\"edges_total\":%u,\"edges_hit_by_pools\":%u,\"edges_hit_after_growth\":%u,\"addresses_added\":%zu}\n",
               shim_backend(), iters, corpus.size(), sim_cov_edges_total(), base_edges, sim_cov_edges_hit(), added.size());
        return 0;
    }

    if (mode == "gen") {
        long long idx = strtoll(arg(argc, argv, "--index", "0"), nullptr, 10);
        Plan p = gen_plan(prop, cfg, seed, idx);
        printf("%s\n", sj::dump(plan_to_json(p)).c_str());
        return 0;
    }

    if (mode == "run") {
        long long start = strtoll(arg(argc, argv, "--start", "0"), nullptr, 10);
        long long stride = strtoll(arg(argc, argv, "--stride", "1"), nullptr, 10);
        long long count = strtoll(arg(argc, argv, "--count", "100"), nullptr, 10);
        double secs = atof(arg(argc, argv, "--secs", "0"));
        bool twice = flag(argc, argv, "--twice");
        bool samples = flag(argc, argv, "--samples");
        auto t0 = std::chrono::steady_clock::now();
        long long done = 0;
        for (long long n = 0; n < count; n++) {
            long long idx = start + n * stride;
            if (secs > 0 && (n & 15) == 0) {
                double el = std::chrono::duration<double>(std::chrono::steady_clock::now() - t0).count();
                if (el > secs) break;
            }
            Plan p = gen_plan(prop, cfg, seed, idx);
            printf("B %lld\n", idx);
            vector<Viol> v; uint64_t hl, hn;
            bool alive = true;
            if (p.cfg == "tldsweep") {
                Plan derived; g_abort_armed = true;
                if (setjmp(g_abort_jmp) == 0) run_sweep(p, v, derived); else { Viol x; x.cls = "C13:abort-inside-library"; x.detail = g_abort_what; v.push_back(x); alive = false; }
                g_abort_armed = false;
                hl = hn = sim_mix64((uint64_t)idx ^ seed); ST.plans++; ST.plan_hashes.insert(hl); if (v.empty()) ST.nontrivial.insert(hl);
                if (!v.empty() && !derived.ops.empty()) p = derived;
            } else
            alive = run_plan(p, false, v, hl, hn, nullptr);
            done++;
            if (v.empty()) {
                printf("R %lld ok %016llx %016llx\n", idx, (unsigned long long)hl, (unsigned long long)hn);
                if (twice && alive) {
                    vector<Viol> v2; uint64_t hl2, hn2;
                    run_plan(p, false, v2, hl2, hn2, nullptr, false);
                    if (hl2 != hl || !v2.empty()) printf("N %lld %016llx %016llx\n", idx, (unsigned long long)hl, (unsigned long long)hl2);
                    else printf("T %lld\n", idx);
                }
                if (samples && n < 3) printf("P %lld %s\n", idx, sj::dump(plan_to_json(p)).c_str());
            } else {
                printf("V %lld %016llx %s | op=%d | %s\n", idx, (unsigned long long)hl, v[0].cls.c_str(), v[0].op_index, sj::dump(sj::Value::str(v[0].detail)).c_str());
                printf("P %lld %s\n", idx, sj::dump(plan_to_json(p)).c_str());
            }
            if (!alive) { printf("X %lld worker state untrusted after abort/assert, exiting\n", idx); write_hashes(arg(argc, argv, "--hashes-out", "")); printf("S %s\n", sj::dump(stats_json()).c_str()); return 3; }
        }
        write_hashes(arg(argc, argv, "--hashes-out", ""));
        printf("S %s\n", sj::dump(stats_json()).c_str());
        printf("D %lld\n", done);
        return 0;
    }
    fprintf(stderr, "unknown mode %s\n", mode.c_str());
    return 64;
}

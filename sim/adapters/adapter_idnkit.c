/* idnkit-2 API (subset) over the simulator's converter, with a resolver-context
 * ledger: every create / destroy / use is checked. */
#include <stdio.h>
#include <stdlib.h>
#include <string.h>
#include "idnkit/idn/api.h"
#include "../hist/simrt.h"

#define MAXCTX 4096
struct idn_resconf { unsigned magic; int id; int live; int tag; };
static struct idn_resconf slots[MAXCTX];
static int nslots = 0;
struct sim_ctxstat g_sim_ctx;

void sim_ctx_reset (void)
{
    memset (slots, 0, sizeof (struct idn_resconf) * (size_t)(nslots < MAXCTX ? nslots : MAXCTX));
    nslots = 0;
    memset (&g_sim_ctx, 0, sizeof g_sim_ctx);
}

int sim_ctx_live_for_tag (int tag)
{
    int n = 0;
    for (int i = 0; i < nslots; i++) if (slots[i].live && slots[i].tag == tag) n++;
    return n;
}

void sim_ctx_retag (int from, int to)
{
    for (int i = 0; i < nslots; i++) if (slots[i].live && slots[i].tag == from) slots[i].tag = to;
}

void sim_ctx_forget (int tag)
{
    for (int i = 0; i < nslots; i++) if (slots[i].live && slots[i].tag == tag) { slots[i].live = 0; g_sim_ctx.live--; }
}

static struct idn_resconf *valid (idn_resconf_t c)
{
    if (c < slots || c >= slots + nslots) return NULL;
    if (((char *)c - (char *)slots) % sizeof (struct idn_resconf)) return NULL;
    if (c->magic != 0x1d9c0de) return NULL;
    return c;
}

idn_result_t idn_resconf_initialize (void)
{
    g_sim_ctx.init_calls++;
    if (g_sim_ctx.sf_armed == SIM_SF_INITIALIZE && !g_sim_ctx.sf_fired) {
        g_sim_ctx.sf_fired = 1;
        return idn_nofile;
    }
    return idn_success;
}

idn_result_t idn_resconf_create (idn_resconf_t *ctxp)
{
    if (g_sim_ctx.sf_armed == SIM_SF_CREATE && !g_sim_ctx.sf_fired) {
        g_sim_ctx.sf_fired = 1;
        return idn_nomemory;                /* *ctxp untouched */
    }
    if (nslots >= MAXCTX) { sim_report ("harness:ctx-table-full", ""); return idn_nomemory; }
    struct idn_resconf *c = &slots[nslots];
    c->magic = 0x1d9c0de; c->id = nslots; c->live = 1; c->tag = g_sim_tag;
    nslots++;
    g_sim_ctx.created++; g_sim_ctx.live++;
    *ctxp = c;
    return idn_success;
}

void idn_resconf_destroy (idn_resconf_t ctx)
{
    struct idn_resconf *c = valid (ctx);
    char d[96];
    if (!c) { sim_report ("ctx:destroy-of-unknown-context", "idn_resconf_destroy on a pointer no create returned"); return; }
    if (!c->live) {
        snprintf (d, sizeof d, "context #%d destroyed twice", c->id);
        sim_report ("ctx:double-destroy", d);
        return;
    }
    c->live = 0;
    g_sim_ctx.destroyed++; g_sim_ctx.live--;
    if (g_sim_in_free) g_sim_ctx.destroyed_by_free++; else g_sim_ctx.destroyed_by_setup++;
}

long sim_adapter_map_code (int c)
{
    if (c == 0) return idn_success;
    if (c == -100) return idn_nomemory;
    unsigned u = (unsigned)(c < 0 ? -(long)c : c);
    static const int codes[12] = { idn_invalid_syntax, idn_invalid_name, idn_invalid_codepoint,
        idn_invalid_length, idn_noentry, idn_nofile, idn_nomapping, idn_context_required,
        idn_prohibited, idn_failure, idn_invalid_encoding, idn_invalid_action };
    return codes[u % 12];
}

idn_result_t idn_res_encodename (idn_resconf_t ctx, idn_action_t actions,
                                 const char *from, char *to, size_t tolen)
{
    struct idn_resconf *c = valid (ctx);
    char *out = NULL;
    int fault = 0, rc;
    char d[96];
    g_sim_ctx.encode_calls++;
    if (!c) sim_report ("ctx:use-of-unknown-context", "idn_res_encodename on a pointer no create returned");
    else if (!c->live) {
        snprintf (d, sizeof d, "context #%d used after destroy", c->id);
        sim_report ("ctx:use-after-destroy", d);
    }
    /* idnkit performs only the steps requested in `actions`: without IDN_IDNCONV the name is not converted to ACE at all */
    if ((actions & IDN_IDNCONV) == 0) {
        size_t n = strlen (from);
        if (n + 1 > tolen) return idn_buffer_overflow;
        memcpy (to, from, n + 1);
        return idn_success;
    }
    rc = sim_convert_raw (from, &out, &fault, -1);
    if (fault) {
        if (g_sim_conv.buf == SIM_BUF_B && tolen > 8) {   /* partially written output */
            memset (to, 'x', 7); to[7] = 0;
        }
        if (out) sim_raw_free (out);
        return (idn_result_t)sim_adapter_map_code (rc);
    }
    if (rc != 0) { if (out) sim_raw_free (out); return (idn_result_t)sim_adapter_map_code (rc); }
    if (strlen (out) + 1 > tolen) { sim_raw_free (out); return idn_buffer_overflow; }
    strcpy (to, out);
    sim_raw_free (out);
    return idn_success;
}

const char *idn_result_tostring (idn_result_t r)
{
    switch (r) {
    case idn_success: return "success";
    case idn_invalid_syntax: return "invalid syntax";
    case idn_invalid_name: return "invalid name";
    case idn_invalid_message: return "invalid message";
    case idn_invalid_action: return "invalid action";
    case idn_invalid_codepoint: return "invalid code point";
    case idn_invalid_length: return "invalid length";
    case idn_buffer_overflow: return "buffer overflow";
    case idn_noentry: return "no such entry";
    case idn_nomemory: return "out of memory";
    case idn_nofile: return "no such file";
    case idn_nomapping: return "no mapping to output codeset";
    case idn_context_required: return "context information is required";
    case idn_prohibited: return "prohibited character found";
    case idn_failure: return "generic failure";
    case idn_neq: return "not equal";
    case idn_invalid_encoding: return "invalid encoding found";
    default: return "unknown result code";
    }
}

const char *sim_adapter_strerror (long code) { return idn_result_tostring ((idn_result_t)code); }

/* Stand-in for GNU libidn's <idna.h>: the subset libeav's partial/idn uses, with
 * libidn's real (positive) return-code numbering.  Implemented in adapter_idn.c on top
 * of the simulator's one converter. */
#ifndef IDNA_H
#define IDNA_H
#ifdef __cplusplus
extern "C" {
#endif
typedef enum {
    IDNA_SUCCESS = 0,
    IDNA_STRINGPREP_ERROR = 1,
    IDNA_PUNYCODE_ERROR = 2,
    IDNA_CONTAINS_NON_LDH = 3,
    IDNA_CONTAINS_LDH = IDNA_CONTAINS_NON_LDH,
    IDNA_CONTAINS_MINUS = 4,
    IDNA_INVALID_LENGTH = 5,
    IDNA_NO_ACE_PREFIX = 6,
    IDNA_ROUNDTRIP_VERIFY_ERROR = 7,
    IDNA_CONTAINS_ACE_PREFIX = 8,
    IDNA_ICONV_ERROR = 9,
    IDNA_MALLOC_ERROR = 201,
    IDNA_DLOPEN_ERROR = 202
} Idna_rc;

typedef enum {
    IDNA_ALLOW_UNASSIGNED = 0x0001,
    IDNA_USE_STD3_ASCII_RULES = 0x0002
} Idna_flags;

extern int idna_to_ascii_lz (const char *input, char **output, int flags);
extern int idna_to_ascii_8z (const char *input, char **output, int flags);
extern const char *idna_strerror (Idna_rc rc);
#ifdef __cplusplus
}
#endif
#endif

/* Stand-in for idnkit-2's <idn/api.h>: the subset libeav's partial/idnkit uses.
 * Implemented in adapter_idnkit.c on top of the simulator's one converter; resolver
 * contexts are ledger slots so create/destroy/use are checked. */
#ifndef IDN_API_H
#define IDN_API_H
#include <stddef.h>
#ifdef __cplusplus
extern "C" {
#endif
typedef enum {
    idn_success,
    idn_invalid_syntax,
    idn_invalid_name,
    idn_invalid_message,
    idn_invalid_action,
    idn_invalid_codepoint,
    idn_invalid_length,
    idn_buffer_overflow,
    idn_noentry,
    idn_nomemory,
    idn_nofile,
    idn_nomapping,
    idn_context_required,
    idn_prohibited,
    idn_failure,
    idn_neq,
    idn_invalid_encoding
} idn_result_t;

typedef struct idn_resconf *idn_resconf_t;
typedef unsigned long idn_action_t;

#define IDN_UNICODECONV 0x00000001UL
#define IDN_MAP         0x00000002UL
#define IDN_ASCLOWER    0x00000004UL
#define IDN_RTCONV      0x00000008UL
#define IDN_PROHCHECK   0x00000010UL
#define IDN_UNASCHECK   0x00000020UL
#define IDN_NFCCHECK    0x00000040UL
#define IDN_PREFCHECK   0x00000080UL
#define IDN_HYPHCHECK   0x00000100UL
#define IDN_COMBCHECK   0x00000200UL
#define IDN_CTXJCHECK   0x00000400UL
#define IDN_CTXOCHECK   0x00000800UL
#define IDN_CTXOLITECHECK 0x00001000UL
#define IDN_BIDICHECK   0x00002000UL
#define IDN_LOCALCHECK  0x00004000UL
#define IDN_IDNCONV     0x00008000UL
#define IDN_LENCHECK    0x00010000UL
#define IDN_RTCHECK     0x00020000UL
#define IDN_LOCALCONV   0x00040000UL
#define IDN_ENCODE_REGIST 0x0007ffffUL
#define IDN_ENCODE_LOOKUP 0x0007fbffUL

extern idn_result_t idn_resconf_initialize (void);
extern idn_result_t idn_resconf_create (idn_resconf_t *ctxp);
extern void idn_resconf_destroy (idn_resconf_t ctx);
extern idn_result_t idn_res_encodename (idn_resconf_t ctx, idn_action_t actions,
                                        const char *from, char *to, size_t tolen);
extern const char *idn_result_tostring (idn_result_t result);
#ifdef __cplusplus
}
#endif
#endif

/* GNU libidn API (subset) over the simulator's converter. */
#include <stdlib.h>
#include <string.h>
#include "idn/idna.h"
#include "../hist/simrt.h"

static const int idn_codes[11] = {
    IDNA_STRINGPREP_ERROR, IDNA_PUNYCODE_ERROR, IDNA_CONTAINS_NON_LDH, IDNA_CONTAINS_MINUS,
    IDNA_INVALID_LENGTH, IDNA_NO_ACE_PREFIX, IDNA_ROUNDTRIP_VERIFY_ERROR,
    IDNA_CONTAINS_ACE_PREFIX, IDNA_ICONV_ERROR, IDNA_MALLOC_ERROR, IDNA_DLOPEN_ERROR
};

long sim_adapter_map_code (int c)
{
    if (c == 0) return IDNA_SUCCESS;
    if (c == -100) return IDNA_MALLOC_ERROR;           /* IDN2_MALLOC */
    unsigned u = (unsigned)(c < 0 ? -(long)c : c);
    return idn_codes[u % 9];
}

int idna_to_ascii_lz (const char *input, char **output, int flags)
{
    (void)flags;
    /* real libidn converts from the locale's character set and asks the environment first (stringprep_locale_charset:
       getenv("CHARSET"), then nl_langinfo): the read is reproduced so that the simulators see it; the value is not used */
    (void)getenv ("CHARSET");
    return (int)sim_adapter_map_code (sim_convert (input, output, -1));
}

int idna_to_ascii_8z (const char *input, char **output, int flags)
{
    return idna_to_ascii_lz (input, output, flags);
}

const char *idna_strerror (Idna_rc rc)
{
    switch (rc) {
    case IDNA_SUCCESS: return "Success";
    case IDNA_STRINGPREP_ERROR: return "String preparation failed";
    case IDNA_PUNYCODE_ERROR: return "Punycode failed";
    case IDNA_CONTAINS_NON_LDH: return "Non-digit/letter/hyphen in input";
    case IDNA_CONTAINS_MINUS: return "Forbidden leading or trailing minus sign (`-')";
    case IDNA_INVALID_LENGTH: return "Output would be too large or too small";
    case IDNA_NO_ACE_PREFIX: return "Input does not start with ACE prefix (`xn--')";
    case IDNA_ROUNDTRIP_VERIFY_ERROR: return "String not idempotent under ToASCII";
    case IDNA_CONTAINS_ACE_PREFIX: return "Input already contain ACE prefix (`xn--')";
    case IDNA_ICONV_ERROR: return "Character encoding conversion error";
    case IDNA_MALLOC_ERROR: return "Cannot allocate memory";
    case IDNA_DLOPEN_ERROR: return "System dlopen failed";
    default: return "Unknown error";
    }
}

const char *sim_adapter_strerror (long code) { return idna_strerror ((Idna_rc)code); }

// CLI simulator (C20): bin/main.c runs in-process as eav_cli_main() over a simulated
// file layer.  fopen("sim:N") is wrapped to a fopencookie stream whose read callback
// follows the plan's chunk schedule and attached I/O faults; stdout/stderr are swapped
// for capture streams (with attached write faults); every allocation made while the
// tool runs is ledgered through the sanitizer allocator hooks.
//
//   cli gen  --cfg C --seed S --index I
//   cli run  --cfg C --seed S --start A --stride W --count N [--twice] [--secs T] [--samples]
//   cli exec --replay FILE [--log]
#include <link.h>
#include <fcntl.h>
#include <cstdarg>
#include <pthread.h>
#include <cstdio>
#include <cstdlib>
#include <cstring>
#include <csetjmp>
#include <cerrno>
#include <clocale>
#include <sys/stat.h>
#include <algorithm>
#include <string>
#include <vector>
#include <map>
#include <set>
#include <chrono>
#include <sanitizer/allocator_interface.h>
#include "../core/prng.h"
#include "../core/json.hpp"
#include "../core/mutate.hpp"

extern "C" {
#include <eav.h>
int eav_cli_main(int argc, char **argv);
// independent copy of the library (own decoder), every global renamed ref_*: the reference model's oracle
void ref_eav_init(eav_t *); int ref_eav_setup(eav_t *); int ref_eav_is_email(eav_t *, const char *, size_t); const char *ref_eav_errstr(eav_t *);
FILE *__real_fopen(const char *, const char *);
int __real_fileno(FILE *); int __real_fstat(int, struct stat *); char *__real_setlocale(int, const char *); char *__real_strerror(int);
}

using std::string;
using std::vector;

// ------------------------------------------------------------------ abort / assert / exit seam
static jmp_buf g_jmp;
static bool g_armed = false;
static string g_abort_what, g_abort_expr;
extern "C" void __wrap_abort(void) {
    if (g_armed) { g_abort_what = "abort() called"; longjmp(g_jmp, 1); }
    _Exit(70);
}
extern "C" void __wrap___assert_fail(const char *expr, const char *file, unsigned line, const char *fn) {
    if (g_armed) {
        char b[300]; const char *base = strrchr(file, '/'); base = base ? base + 1 : file;
        snprintf(b, sizeof b, "%s:%s: Assertion `%s' failed", base, fn ? fn : "?", expr);
        (void)line;
        g_abort_expr.clear(); for (const char *q = expr; *q && g_abort_expr.size() < 40; q++) if (*q != ' ') g_abort_expr += *q;
        g_abort_what = b; longjmp(g_jmp, 2);
    }
    fprintf(stderr, "assert outside SUT: %s %s:%u\n", expr, file, line);
    _Exit(71);
}
extern "C" void __wrap_exit(int code) {
    if (g_armed) { g_abort_what = "exit(" + std::to_string(code) + ") called"; longjmp(g_jmp, 3); }
    _Exit(code);
}

// ------------------------------------------------------------------ plan
struct Op {
    string k;                   // INVOKE | FILE | LINE
    string s; int t = 0;        // LINE: bytes, terminator 0=LF 1=CRLF 2=none
    vector<long long> chunks;   // FILE: read sizes, cycled; empty = as much as asked
    string ff_kind; int ff_errno = 0; long long ff_at = -1; int ff_transient = 0; // FILE fault
    string name;                // FILE: the operand as the user typed it (empty: "sim:<n>"); made unique per invocation by the harness
    int fkind = 0;              // FILE: what fstat() says - 0 regular file (st_size = length), 1 FIFO/pipe (st_size = 0)
    int via = 0;                // FILE: how the operand reaches the file - 0 directly, 1 the operand is a symbolic link to it (lstat() says S_IFLNK, stat() follows)
    string of_kind; long long of_at = -1; int of_errno = 0;                        // INVOKE: stdout fault
    int nostdin = 0;            // INVOKE: the tool was started with standard input closed (cron, daemons, `<&-`): the first descriptor it opens is 0
    int tty = 0;                // INVOKE: bit 0 = stdout is a terminal, bit 1 = stderr is a terminal (what isatty() says)
    int usage = 0;              // INVOKE: 1 = "-h", 2 = "--help" as first argument (files follow); an invocation without files is the usage path too
    int loc = 0;                // INVOKE: the user's locale (the tool calls setlocale(LC_ALL, "")): 0 C, 1 C.UTF-8, 2 a single-byte locale
};
struct Plan { string cfg = "nofault"; uint64_t seed = 0; long long index = -1; vector<Op> ops; };

static sj::Value op_to_json(const Op &op) {
    sj::Value j = sj::Value::object();
    j.set("k", op.k);
    if (op.k == "LINE") { j.set("s", op.s); j.set("t", op.t); }
    if (op.k == "FILE") {
        sj::Value c = sj::Value::array(); for (auto x : op.chunks) c.push(sj::Value::integer(x));
        j.set("chunks", c);
        if (op.fkind) j.set("kind", op.fkind);
        if (op.via) j.set("via", op.via);
        if (!op.name.empty()) j.set("name", op.name);
        if (!op.ff_kind.empty()) { sj::Value f = sj::Value::object(); f.set("kind", op.ff_kind); f.set("errno", op.ff_errno); f.set("at", op.ff_at); f.set("transient", op.ff_transient); j.set("ff", f); }
    }
    if (op.k == "INVOKE" && op.loc) j.set("loc", op.loc);
    if (op.k == "INVOKE" && op.usage) j.set("usage", op.usage);
    if (op.k == "INVOKE" && op.tty) j.set("tty", op.tty);
    if (op.k == "INVOKE" && op.nostdin) j.set("nostdin", op.nostdin);
    if (op.k == "INVOKE" && !op.of_kind.empty()) { sj::Value f = sj::Value::object(); f.set("kind", op.of_kind); f.set("at", op.of_at); f.set("errno", op.of_errno); j.set("of", f); }
    return j;
}
static sj::Value plan_to_json(const Plan &p) {
    sj::Value j = sj::Value::object();
    j.set("prop", "C20"); j.set("cfg", p.cfg); j.set("seed", (long long)p.seed); j.set("index", p.index);
    sj::Value a = sj::Value::array(); for (auto &op : p.ops) a.push(op_to_json(op));
    j.set("ops", a);
    return j;
}
static Plan plan_from_json(const sj::Value &j) {
    Plan p; p.cfg = j.gets("cfg", "nofault"); p.seed = (uint64_t)j.geti("seed"); p.index = j.geti("index", -1);
    const sj::Value *ops = j.get("ops");
    if (ops) for (auto &e : ops->a) {
        Op op; op.k = e.gets("k");
        if (op.k != "INVOKE" && op.k != "FILE" && op.k != "LINE") continue;
        op.s = e.gets("s"); op.t = (int)e.geti("t"); op.fkind = (int)e.geti("kind"); op.via = (int)e.geti("via"); op.loc = (int)e.geti("loc"); op.usage = (int)e.geti("usage"); op.tty = (int)e.geti("tty"); op.nostdin = (int)e.geti("nostdin"); op.name = e.gets("name"); if (op.name.find('\0') != string::npos) op.name = op.name.substr(0, op.name.find('\0'));
        const sj::Value *c = e.get("chunks"); if (c) for (auto &x : c->a) op.chunks.push_back(x.i < 1 ? 1 : x.i);
        const sj::Value *f = e.get("ff");
        if (f && f->kind == sj::Value::Obj) { op.ff_kind = f->gets("kind"); op.ff_errno = (int)f->geti("errno"); op.ff_at = f->geti("at", -1); op.ff_transient = (int)f->geti("transient"); }
        const sj::Value *o = e.get("of");
        if (o && o->kind == sj::Value::Obj) { op.of_kind = o->gets("kind"); op.of_at = o->geti("at", -1); op.of_errno = (int)o->geti("errno"); }
        p.ops.push_back(op);
    }
    return p;
}

// structured view of a plan (ops interpreted modulo structure: any subsequence is legal)
struct SFile { string name; int fkind = 0; int via = 0; string data; vector<long long> chunks; string ff_kind; int ff_errno = 0; long long ff_at = -1; int ff_transient = 0; int nlines = 0; };
struct SInv { vector<SFile> files; string of_kind; long long of_at = -1; int of_errno = 0; int loc = 0; int usage = 0; int tty = 0; int nostdin = 0; };
static vector<SInv> structure(const Plan &p) {
    vector<SInv> inv;
    for (auto &op : p.ops) {
        if (op.k == "INVOKE") { SInv i; i.of_kind = op.of_kind; i.of_at = op.of_at; i.of_errno = op.of_errno; i.loc = op.loc; i.usage = op.usage; i.tty = op.tty; i.nostdin = op.nostdin; inv.push_back(i); }
        else if (op.k == "FILE") {
            if (inv.empty()) inv.push_back(SInv());
            SFile f; f.fkind = op.fkind; f.via = op.via; f.name = op.name; f.chunks = op.chunks; f.ff_kind = op.ff_kind; f.ff_errno = op.ff_errno; f.ff_at = op.ff_at; f.ff_transient = op.ff_transient;
            if (inv.back().files.size() < 400) inv.back().files.push_back(f);
        } else {
            if (inv.empty()) inv.push_back(SInv());
            if (inv.back().files.empty()) inv.back().files.push_back(SFile());
            SFile &f = inv.back().files.back();
            f.data += op.s; f.nlines++;
            if (op.t == 0) f.data += "\n"; else if (op.t == 1) f.data += "\r\n";
        }
    }
    vector<SInv> out;
    for (auto &i : inv) if (!i.files.empty()) out.push_back(i);
    return out;
}

// ------------------------------------------------------------------ simulated file layer
struct FileState {
    const SFile *f = nullptr; size_t pos = 0; size_t chunk_i = 0; bool failed_once = false; bool eof_reported = false;
    long reads = 0, reads_after_eof = 0, short_reads = 0; bool fault_fired = false; bool opened = false; bool closed = false;
    size_t out_begin = 0, out_end = 0; bool out_marked = false;
    FILE *fp = nullptr; int fd = -1;       // the descriptor the simulated file was opened on
};
struct Sim {
    const SInv *inv = nullptr;
    vector<FileState> fs;
    vector<string> names;       // the operands of this invocation, by file index
    std::map<int, int> fdmap;   // simulated descriptor -> file index
    char *tool_buf = nullptr; size_t tool_buf_size = 0; bool tool_buf_heap = false;      // a buffer the tool itself gave to stdout / stderr with setvbuf()
    string out, err;            // captured stdout / stderr of the tool
    long long out_written = 0; bool of_fired = false; long out_calls = 0;
    int in_harness = 0;
    // stats of this invocation
    long fopen_calls = 0, fopen_faults = 0;
    FILE *cap_out = nullptr, *cap_err = nullptr;
};
static Sim *S = nullptr;

struct Cookie { int idx; };

static ssize_t rd_cb(void *c, char *buf, size_t size) {
    Cookie *ck = (Cookie *)c; FileState &st = S->fs[ck->idx]; const SFile &f = *st.f;
    st.reads++;
    if (st.eof_reported) st.reads_after_eof++;
    // progress: once faults have stopped (a transient fault fired, or none is attached) the tool must finish the file within
    // a bounded number of reads; under a permanent fault a retrying tool is let go by turning the stream into EOF
    if (st.reads > (long)f.data.size() + 2000) {
        bool permanent = f.ff_kind == "read" && !f.ff_transient;
        if (permanent) { st.eof_reported = true; return 0; }
        if (g_armed) { g_abort_what = "read callback invoked " + std::to_string(st.reads) + " times for a file of " + std::to_string(f.data.size()) + " bytes"; longjmp(g_jmp, 4); }
    }
    if (f.ff_kind == "read" && f.ff_at >= 0 && (long long)st.pos >= f.ff_at && (!st.failed_once || !f.ff_transient)) {
        st.failed_once = true; st.fault_fired = true; errno = f.ff_errno ? f.ff_errno : EIO; return -1;
    }
    size_t remain = f.data.size() - st.pos;
    if (remain == 0) { st.eof_reported = true; return 0; }
    size_t n = size < remain ? size : remain;
    if (!f.chunks.empty()) {
        size_t want = (size_t)f.chunks[st.chunk_i % f.chunks.size()]; st.chunk_i++;
        if (want < n) { n = want; st.short_reads++; }
    }
    if (f.ff_kind == "read" && f.ff_at >= 0 && !st.failed_once && (long long)st.pos < f.ff_at && (long long)(st.pos + n) > f.ff_at)
        n = (size_t)(f.ff_at - (long long)st.pos);      // deliver up to the fault offset, fail on the next call
    memcpy(buf, f.data.data() + st.pos, n);
    st.pos += n;
    return (ssize_t)n;
}
// a regular file can be repositioned (rewind after a pre-scan, ftell/fseek to learn the size); a FIFO cannot
static int sk_cb(void *c, off64_t *off, int whence) {
    Cookie *ck = (Cookie *)c; FileState &st = S->fs[ck->idx]; const SFile &f = *st.f;
    if (f.fkind) { errno = ESPIPE; return -1; }
    long long base = whence == SEEK_SET ? 0 : whence == SEEK_CUR ? (long long)st.pos : (long long)f.data.size();
    long long np = base + (long long)*off;
    if (np < 0) { errno = EINVAL; return -1; }
    if (np > (long long)f.data.size()) np = (long long)f.data.size();
    st.pos = (size_t)np; st.eof_reported = false; *off = (off64_t)np;
    return 0;
}
static int cl_cb(void *c) {
    Cookie *ck = (Cookie *)c; S->in_harness++;
    FileState &st = S->fs[ck->idx]; st.closed = true; if (st.fd >= 0) S->fdmap.erase(st.fd);
    fflush(stdout); st.out_end = S->out.size();
    delete ck; S->in_harness--; return 0;
}

// the descriptor a newly opened simulated file gets: POSIX hands out the lowest free one, which is 0 when the tool was started
// with standard input closed; otherwise a number of the simulator's own (what a correct program does with it is the same)
static int sim_alloc_fd(int idx) {
    if (S->inv && S->inv->nostdin && !S->fdmap.count(0)) return 0;
    return 1000 + idx;
}
static int sim_lookup(const char *path) { if (S && path) for (size_t i = 0; i < S->names.size(); i++) if (S->names[i] == path) return (int)i; return -1; }
// open by name: fault or descriptor (-1 with errno set)
static int sim_open_idx(int idx) {
    FileState &st = S->fs[idx];
    S->fopen_calls++;
    fflush(stdout);                     // file boundary in the captured output
    st.out_begin = S->out.size(); st.out_marked = true; st.out_end = st.out_begin;
    if (st.f->ff_kind == "open") { st.fault_fired = true; S->fopen_faults++; errno = st.f->ff_errno ? st.f->ff_errno : ENOENT; return -1; }
    st.opened = true; st.closed = false; st.fd = sim_alloc_fd(idx); S->fdmap[st.fd] = idx;
    return st.fd;
}
static FILE *sim_stream_for(int idx) {
    FileState &st = S->fs[idx];
    cookie_io_functions_t io = { rd_cb, nullptr, sk_cb, cl_cb };
    S->in_harness--;                // FILE + stream buffer belong to the tool's run (freed by fclose)
    FILE *r = fopencookie(new Cookie{ idx }, "r", io);
    S->in_harness++;
    st.fp = r;
    return r;
}
extern "C" FILE *__wrap_fopen(const char *path, const char *mode) {
    int idx = sim_lookup(path);
    if (S && idx >= 0) {
        S->in_harness++;
        FILE *r = nullptr;
        if (sim_open_idx(idx) >= 0) r = sim_stream_for(idx);
        S->in_harness--;
        return r;
    }
    return __real_fopen(path, mode);
}
// the same files through the descriptor interface: open / fdopen / read / close / posix_fadvise
extern "C" int __real_open(const char *path, int flags, ...);
extern "C" int __wrap_open(const char *path, int flags, ...) {
    int idx = sim_lookup(path);
    if (S && idx >= 0 && !S->in_harness) { S->in_harness++; int fd = sim_open_idx(idx); S->in_harness--; return fd; }
    mode_t m = 0; if (flags & O_CREAT) { va_list ap; va_start(ap, flags); m = (mode_t)va_arg(ap, int); va_end(ap); }
    return __real_open(path, flags, m);
}
extern "C" int __wrap_open64(const char *path, int flags, ...) {
    int idx = sim_lookup(path);
    if (S && idx >= 0 && !S->in_harness) { S->in_harness++; int fd = sim_open_idx(idx); S->in_harness--; return fd; }
    mode_t m = 0; if (flags & O_CREAT) { va_list ap; va_start(ap, flags); m = (mode_t)va_arg(ap, int); va_end(ap); }
    return __real_open(path, flags, m);
}
extern "C" FILE *__real_fdopen(int fd, const char *mode);
extern "C" FILE *__wrap_fdopen(int fd, const char *mode) {
    if (S && !S->in_harness && S->fdmap.count(fd)) { S->in_harness++; FILE *r = sim_stream_for(S->fdmap[fd]); S->in_harness--; return r; }
    return __real_fdopen(fd, mode);
}
extern "C" ssize_t __real_read(int fd, void *buf, size_t n);
extern "C" ssize_t __wrap_read(int fd, void *buf, size_t n) {
    if (S && !S->in_harness && S->fdmap.count(fd)) { Cookie ck{ S->fdmap[fd] }; return rd_cb(&ck, (char *)buf, n); }
    return __real_read(fd, buf, n);
}
extern "C" int __real_close(int fd);
extern "C" int __wrap_close(int fd) {
    if (S && !S->in_harness && S->fdmap.count(fd)) {
        S->in_harness++; FileState &st = S->fs[S->fdmap[fd]]; st.closed = true; fflush(stdout); st.out_end = S->out.size(); S->fdmap.erase(fd); S->in_harness--;
        return 0;
    }
    return __real_close(fd);
}
extern "C" off_t __real_lseek(int fd, off_t off, int whence);
extern "C" off_t __wrap_lseek(int fd, off_t off, int whence) {
    if (S && !S->in_harness && S->fdmap.count(fd)) { Cookie ck{ S->fdmap[fd] }; off64_t o = off; if (sk_cb(&ck, &o, whence) != 0) return (off_t)-1; return (off_t)o; }
    return __real_lseek(fd, off, whence);
}
extern "C" int __real_posix_fadvise(int fd, off_t off, off_t len, int adv);
extern "C" int __wrap_posix_fadvise(int fd, off_t off, off_t len, int adv) {
    if (S && !S->in_harness && S->fdmap.count(fd)) return 0;
    return __real_posix_fadvise(fd, off, len, adv);
}

// locale data loaded by glibc for setlocale() is cached by glibc for the life of the process: not the tool's allocation
extern "C" char *__wrap_setlocale(int cat, const char *name) {
    if (S) S->in_harness++;
    char *r = __real_setlocale(cat, name);
    if (S) S->in_harness--;
    return r;
}

// message catalogues looked up by strerror() under a non-C locale are cached by glibc as well
extern "C" char *__wrap_strerror(int e) {
    if (S) S->in_harness++;
    char *r = __real_strerror(e);
    if (S) S->in_harness--;
    return r;
}

// what the simulated file system says about an input stream: descriptor numbers 1000+N, fstat() per the plan's file kind
extern "C" int __real_isatty(int fd);
extern "C" int __wrap_isatty(int fd) {
    // where the user's stdout / stderr go is part of the environment: a terminal or not
    if (S && S->fdmap.count(fd)) { errno = ENOTTY; return 0; }      // a simulated input file (possibly on descriptor 0)
    if (S && S->inv && (fd == 1 || fd == 2 || fd == 2001 || fd == 2002)) { int bit = (fd == 1 || fd == 2001) ? 1 : 2; if (S->inv->tty & bit) return 1; errno = ENOTTY; return 0; }
    return __real_isatty(fd);
}
extern "C" int __wrap_fileno(FILE *f) {
    if (S && f && f == S->cap_out) return 2001;
    if (S && f && f == S->cap_err) return 2002;
    if (S && f) for (size_t i = 0; i < S->fs.size(); i++) if (S->fs[i].fp == f && !S->fs[i].closed) return S->fs[i].fd;
    return __real_fileno(f);
}
extern "C" int __wrap_fstat(int fd, struct stat *st) {
    if (S && S->inv && (fd == 2001 || fd == 2002)) {
        memset(st, 0, sizeof *st);
        st->st_mode = (S->inv->tty & (fd == 2001 ? 1 : 2)) ? (S_IFCHR | 0620) : (S_IFIFO | 0600);
        st->st_blksize = 4096; st->st_nlink = 1;
        return 0;
    }
    if (S && S->fdmap.count(fd)) {
        const SFile &f = *S->fs[S->fdmap[fd]].f;
        memset(st, 0, sizeof *st);
        st->st_mode = f.fkind ? (S_IFIFO | 0600) : (S_IFREG | 0644);
        st->st_size = f.fkind ? 0 : (off_t)f.data.size();
        st->st_blksize = 4096; st->st_nlink = 1;
        return 0;
    }
    return __real_fstat(fd, st);
}

// the same file system by path name: stat() follows a symbolic-link operand, lstat() describes the link itself;
// an operand whose open fails because the name does not resolve does not stat either
static int sim_stat_path(int idx, struct stat *st, bool follow) {
    const SFile &f = *S->fs[idx].f;
    if (f.ff_kind == "open") { int e = f.ff_errno ? f.ff_errno : ENOENT; if (e == ENOENT || e == ENOTDIR || e == ELOOP || e == ENAMETOOLONG) { errno = e; return -1; } }
    memset(st, 0, sizeof *st);
    st->st_blksize = 4096; st->st_nlink = 1;
    if (f.via && !follow) { st->st_mode = S_IFLNK | 0777; st->st_size = 17; return 0; }
    st->st_mode = f.fkind ? (S_IFIFO | 0600) : (S_IFREG | 0644);
    st->st_size = f.fkind ? 0 : (off_t)f.data.size();
    return 0;
}
extern "C" int __real_stat(const char *, struct stat *); extern "C" int __real_lstat(const char *, struct stat *);
extern "C" int __real_fstatat(int, const char *, struct stat *, int); extern "C" int __real_access(const char *, int);
extern "C" int __wrap_stat(const char *path, struct stat *st) { int idx = sim_lookup(path); if (S && idx >= 0 && !S->in_harness) return sim_stat_path(idx, st, true); return __real_stat(path, st); }
extern "C" int __wrap_lstat(const char *path, struct stat *st) { int idx = sim_lookup(path); if (S && idx >= 0 && !S->in_harness) return sim_stat_path(idx, st, false); return __real_lstat(path, st); }
extern "C" int __wrap_stat64(const char *path, struct stat *st) { return __wrap_stat(path, st); }
extern "C" int __wrap_lstat64(const char *path, struct stat *st) { return __wrap_lstat(path, st); }
extern "C" int __wrap_fstatat(int dfd, const char *path, struct stat *st, int flags) {
    int idx = sim_lookup(path);
    if (S && idx >= 0 && !S->in_harness) return sim_stat_path(idx, st, !(flags & AT_SYMLINK_NOFOLLOW));
    return __real_fstatat(dfd, path, st, flags);
}
extern "C" int __wrap_fstatat64(int dfd, const char *path, struct stat *st, int flags) { return __wrap_fstatat(dfd, path, st, flags); }
extern "C" int __wrap_access(const char *path, int mode) {
    int idx = sim_lookup(path);
    if (S && idx >= 0 && !S->in_harness) {
        const SFile &f = *S->fs[idx].f;
        if (f.ff_kind == "open") { errno = f.ff_errno ? f.ff_errno : ENOENT; return -1; }
        if (mode & (W_OK | X_OK)) { errno = EACCES; return -1; }
        return 0;
    }
    return __real_access(path, mode);
}

static ssize_t out_cb(void *c, const char *buf, size_t size) {
    string *dst = (string *)c;
    S->in_harness++;
    ssize_t ret = (ssize_t)size;
    if (dst == &S->out) {
        S->out_calls++;
        const SInv &iv = *S->inv;
        bool crossing = !iv.of_kind.empty() && iv.of_at >= 0 && S->out_written + (long long)size > iv.of_at;
        if (crossing && !(iv.of_kind == "short" && S->of_fired)) {
            size_t ok = (size_t)std::max(0LL, iv.of_at - S->out_written);
            S->of_fired = true;
            if (iv.of_kind == "short") {            // one short write, later writes succeed
                size_t n = ok > 0 ? ok : 1; if (n > size) n = size;
                dst->append(buf, n); S->out_written += (long long)n; S->in_harness--; return (ssize_t)n;
            }
            if (ok > 0) { dst->append(buf, ok); S->out_written += (long long)ok; S->in_harness--; return (ssize_t)ok; }
            S->in_harness--; errno = iv.of_errno ? iv.of_errno : ENOSPC; return -1;   // ENOSPC / EPIPE: permanent
        }
        S->out_written += (long long)size;
    }
    dst->append(buf, size);
    S->in_harness--;
    return ret;
}

// ------------------------------------------------------------------ allocation ledger (sanitizer hooks)
static bool g_led_on = false;
struct Blk { size_t n; uint64_t seq; };
static std::map<const void *, Blk> *g_live = nullptr;
static uint64_t g_seq = 0, g_allocs = 0, g_frees = 0;
static int g_hook_busy = 0;
static void mhook(const volatile void *p, size_t n) {
    if (!g_led_on || g_hook_busy || !S || S->in_harness) return;
    g_hook_busy++; (*g_live)[(const void *)p] = Blk{ n, ++g_seq }; g_allocs++; g_hook_busy--;
}
static void fhook(const volatile void *p) {
    if (!g_led_on || g_hook_busy || !p) return;
    g_hook_busy++; if (g_live->erase((const void *)p)) g_frees++; g_hook_busy--;
}

// the tool may install its own stdio buffer; that buffer must still exist when the stream is flushed at exit
extern "C" int __real_setvbuf(FILE *f, char *buf, int mode, size_t size);
extern "C" int __wrap_setvbuf(FILE *f, char *buf, int mode, size_t size) {
    if (S && !S->in_harness && f && (f == S->cap_out || f == S->cap_err) && buf) {
        S->tool_buf = buf; S->tool_buf_size = size;
        S->tool_buf_heap = g_live && g_live->count(buf) != 0;
    }
    return __real_setvbuf(f, buf, mode, size);
}

// blocks reachable from the tool's / library's own static storage are process-lifetime state ("still reachable"),
// not memory the run failed to release
extern "C" { extern char __start_eavdata[] __attribute__((weak)); extern char __stop_eavdata[] __attribute__((weak));
             extern char __start_eavbss[] __attribute__((weak)); extern char __stop_eavbss[] __attribute__((weak)); }
__attribute__((no_sanitize("address"))) static void scan_words(const char *lo, const char *hi, std::map<const void *, Blk> &live, std::set<const void *> &marked, vector<const void *> &work) {
    lo = (const char *)(((uintptr_t)lo + 7) & ~(uintptr_t)7);
    for (const char *q = lo; q + sizeof(void *) <= hi; q += sizeof(void *)) {
        uintptr_t w = *(const uintptr_t *)q;
        if (w < 4096) continue;
        for (auto &kv : live) if (w >= (uintptr_t)kv.first && w < (uintptr_t)kv.first + (kv.second.n ? kv.second.n : 1) && !marked.count(kv.first)) { marked.insert(kv.first); work.push_back(kv.first); break; }
    }
}
static void drop_reachable_from_statics(std::map<const void *, Blk> &live) {
    if (live.empty()) return;
    std::set<const void *> marked; vector<const void *> work;
    if (__start_eavdata) scan_words(__start_eavdata, __stop_eavdata, live, marked, work);
    if (__start_eavbss) scan_words(__start_eavbss, __stop_eavbss, live, marked, work);
    {   // thread-local statics of the executable (tool and library objects are linked into it; one thread)
        static const char *lo = nullptr, *hi = nullptr; static bool known = false;
        if (!known) {
            known = true;
            dl_iterate_phdr([](struct dl_phdr_info *info, size_t, void *) -> int {
                if (info->dlpi_name && info->dlpi_name[0]) return 0;
                if (!info->dlpi_tls_data) return 1;
                for (int i = 0; i < info->dlpi_phnum; i++) if (info->dlpi_phdr[i].p_type == PT_TLS) { lo = (const char *)info->dlpi_tls_data; hi = lo + info->dlpi_phdr[i].p_memsz; }
                return 1; }, nullptr);
        }
        if (lo) scan_words(lo, hi, live, marked, work);
    }
    while (!work.empty()) { const void *p = work.back(); work.pop_back(); scan_words((const char *)p, (const char *)p + live[p].n, live, marked, work); }
    for (auto p : marked) live.erase(p);
}

// ------------------------------------------------------------------ reference model
static bool utf8_wellformed_noctrl(const string &s) {
    size_t i = 0, n = s.size();
    while (i < n) {
        unsigned char c = (unsigned char)s[i];
        if (c < 0x20 || c == 0x7f) return false;
        if (c < 0x80) { i++; continue; }
        int len; unsigned cp;
        if ((c & 0xE0) == 0xC0) { len = 2; cp = c & 0x1F; }
        else if ((c & 0xF0) == 0xE0) { len = 3; cp = c & 0x0F; }
        else if ((c & 0xF8) == 0xF0) { len = 4; cp = c & 0x07; }
        else return false;
        if (i + len > n) return false;
        for (int k = 1; k < len; k++) { unsigned char d = (unsigned char)s[i + k]; if ((d & 0xC0) != 0x80) return false; cp = (cp << 6) | (d & 0x3F); }
        if (len == 2 && cp < 0x80) return false;
        if (len == 3 && (cp < 0x800 || (cp >= 0xD800 && cp <= 0xDFFF))) return false;
        if (len == 4 && (cp < 0x10000 || cp > 0x10FFFF)) return false;
        // C1 controls U+0080..U+009F are not "control characters" for the tool's purposes (it escapes < 0x20 and 0x7f only)
        i += len;
    }
    return true;
}

struct Expect { bool pass; string echo; bool exact; string err; size_t end_off; string shape; };

static eav_t g_ref; static bool g_ref_ready = false;
static void ref_ready() {
    if (g_ref_ready) return;
    ref_eav_init(&g_ref);
    if (ref_eav_setup(&g_ref) != 0) { fprintf(stderr, "reference eav_setup failed\n"); _Exit(72); }
    g_ref_ready = true;
}

static string line_shape(const string &raw, const string &trimmed, int term) {
    string s;
    if (raw.empty()) s = "empty";
    else if (raw[0] == '#') s = "comment";
    else if (raw == " " || raw == "\t" || raw == "  ") s = "blank";
    else if (trimmed.size() > 2040) s = "long>2040";
    else if (trimmed.size() > 1000) s = "long>1000";
    else if (trimmed.size() > 110) s = "long>110";
    else if (!utf8_wellformed_noctrl(trimmed)) { bool ctrl = false; for (unsigned char c : trimmed) if (c < 0x20 || c == 0x7f) ctrl = true; s = ctrl ? "ctrl" : "bad-utf8"; }
    else { bool hi = false; for (unsigned char c : trimmed) if (c >= 0x80) hi = true; s = hi ? "utf8" : "ascii"; }
    if (raw.find('\0') != string::npos) s += "+nul";
    s += term == 0 ? "/LF" : term == 1 ? "/CRLF" : "/none";
    return s;
}

// what the tool is specified to do with one file's bytes
static vector<Expect> model_file(const string &data, std::set<string> *shapes) {
    vector<Expect> out;
    ref_ready();
    size_t i = 0;
    while (i < data.size()) {
        size_t j = data.find('\n', i);
        size_t end = (j == string::npos) ? data.size() : j + 1;
        string raw = data.substr(i, end - i);
        int term = 2;
        if (raw.size() >= 2 && raw.compare(raw.size() - 2, 2, "\r\n") == 0) { raw.resize(raw.size() - 2); term = 1; }
        else if (!raw.empty() && raw.back() == '\n') { raw.pop_back(); term = 0; }
        i = end;
        string view = raw.substr(0, raw.find('\0'));         // the tool works on C strings
        if (!view.empty() && view[0] == '#') { if (shapes) shapes->insert(line_shape(raw, view, term)); continue; }
        string t = view;
        if (!t.empty() && t[0] == ' ') t.erase(0, 1);
        if (!t.empty() && (t.back() == ' ' || t.back() == '\t')) t.pop_back();
        Expect e; e.end_off = end; e.echo = t; e.exact = utf8_wellformed_noctrl(t);
        e.pass = ref_eav_is_email(&g_ref, t.c_str(), t.size()) != 0;
        const char *m = ref_eav_errstr(&g_ref); e.err = m ? m : "(null)";
        e.shape = line_shape(raw, t, term);
        if (shapes) shapes->insert(e.shape);
        out.push_back(e);
    }
    return out;
}

// ------------------------------------------------------------------ execution
struct Viol { string cls, detail; };
struct Stats {
    uint64_t usage_invocations = 0, plans = 0, invocations = 0, files = 0, lines = 0, verdicts_checked = 0, exact_echo_checked = 0, bytes = 0, steps = 0;
    uint64_t reads = 0, short_reads = 0, fault_open = 0, fault_read_eintr = 0, fault_read_eio = 0, fault_read_attached = 0, fault_open_attached = 0;
    uint64_t fault_out_attached = 0, fault_out_fired = 0, relaxed_files = 0, allocs = 0;
    std::set<string> shapes, tuples; std::set<uint64_t> plan_hashes, nontrivial;
    std::map<string, uint64_t> chunk_class;
    uint64_t by_locale[3] = { 0, 0, 0 };
};
static Stats ST;

struct Exec {
    const Plan &plan; bool want_log;
    vector<string> log; uint64_t h = SIM_FNV_INIT; vector<Viol> viols;
    bool nontrivial = false, any_fault_fired = false;
    vector<string> outs;            // captured stdout per invocation (for the fidelity cross-check)
    Exec(const Plan &p, bool l) : plan(p), want_log(l) {}
    void rec(const string &s) { h = sim_fnv1a(h, s.data(), s.size()); h = sim_fnv1a(h, "\n", 1); if (want_log) log.push_back(s); ST.steps++; }
    void viol(const string &c, const string &d) { Viol v; v.cls = c; v.detail = d; viols.push_back(v); rec("VIOLATION " + c + " | " + d); }

    static string chunk_class(const SFile &f) {
        if (f.chunks.empty()) return "full";
        bool all1 = true; for (auto c : f.chunks) if (c != 1) all1 = false;
        if (all1) return "byte";
        return "sized";
    }

    // returns false if the process state is no longer trusted (abort/assert/exit inside the tool)
    bool run_invocation(const SInv &iv, int inv_no) {
        Sim sim; sim.inv = &iv; sim.fs.resize(iv.files.size());
        for (size_t i = 0; i < iv.files.size(); i++) sim.fs[i].f = &iv.files[i];
        S = &sim;
        vector<string> args; args.push_back("eav");
        if (iv.usage) args.push_back(iv.usage == 1 ? "-h" : "--help");
        bool usage_path = iv.usage != 0 || iv.files.empty();
        // operands as the user typed them; the harness makes them distinct (the file layer finds the file by its name)
        for (size_t i = 0; i < iv.files.size(); i++) {
            string nm = iv.files[i].name.empty() ? "sim:" + std::to_string(i) : iv.files[i].name;
            bool dup = false; for (auto &o : sim.names) if (o == nm) dup = true;
            if (dup || (i == 0 && !iv.usage && (nm == "-h" || nm == "--help"))) nm += "~" + std::to_string(i);
            sim.names.push_back(nm); args.push_back(nm);
        }
        vector<char *> argv; for (auto &a : args) argv.push_back((char *)a.c_str()); argv.push_back(nullptr);
        cookie_io_functions_t oio = { nullptr, out_cb, nullptr, nullptr };
        sim.in_harness++;
        sim.cap_out = fopencookie(&sim.out, "w", oio); sim.cap_err = fopencookie(&sim.err, "w", oio);
        static char outbuf[8192];                   // stdout is fully buffered as for a pipe or file; the buffer is the harness's
        setvbuf(sim.cap_out, outbuf, (iv.tty & 1) ? _IOLBF : _IOFBF, sizeof outbuf);      // line buffered on a terminal, as stdio does
        setvbuf(sim.cap_err, nullptr, _IONBF, 0);
        sim.in_harness--;
        // the environment the user runs the tool in
        static const char *LN[] = { "C", "C.UTF-8", "xx_XX.LEGACY8" };
        const char *lp = getenv("VERIF_LOCPATH");
        int loc = (iv.loc == 2 && !(lp && *lp)) ? 0 : iv.loc % 3;
        setenv("LC_ALL", LN[loc], 1);
        if (loc == 2) setenv("LOCPATH", lp, 1); else unsetenv("LOCPATH");
        ST.by_locale[loc]++;
        FILE *so = stdout, *se = stderr;
        fflush(so);
        std::map<const void *, Blk> live; g_live = &live; g_seq = 0;
        ST.invocations++;
        rec("INVOKE " + std::to_string(inv_no) + " files=" + std::to_string(iv.files.size()) + (iv.of_kind.empty() ? "" : " stdout-fault=" + iv.of_kind + "@" + std::to_string(iv.of_at)));
        volatile int rc = -1; volatile int dead = 0;
        g_armed = true;
        int j = setjmp(g_jmp);
        if (j == 0) {
            stdout = sim.cap_out; stderr = sim.cap_err;
            g_led_on = true;
            rc = eav_cli_main((int)args.size(), argv.data());
            g_led_on = false;
            fflush(stdout);
        } else { g_led_on = false; dead = j; }
        g_armed = false;
        stdout = so; stderr = se;
        sim.in_harness++;
        // ---- oracles
        if (dead) {
            viol(dead == 2 ? "C20:assertion-failure:" + g_abort_expr : dead == 1 ? string("C20:abort") : dead == 4 ? string("C20:no-progress") : string("C20:exit-called"), g_abort_what);
        } else {
            if (sim.tool_buf) {
                // exit() flushes stdout after main() has returned: a buffer in main()'s frame, or one already freed, is gone by then
                uintptr_t b = (uintptr_t)sim.tool_buf, here = (uintptr_t)__builtin_frame_address(0);
                pthread_attr_t at; void *sa = nullptr; size_t ss = 0; uintptr_t slo = 0;
                if (pthread_getattr_np(pthread_self(), &at) == 0) { pthread_attr_getstack(&at, &sa, &ss); pthread_attr_destroy(&at); slo = (uintptr_t)sa; }
                if (slo && b >= slo && b < here) viol("C20:stdio-buffer-outlives-its-storage", "the tool gave stdout/stderr a buffer of " + std::to_string(sim.tool_buf_size) + " bytes that lives in a stack frame which has returned; exit() will flush from it");
                else if (sim.tool_buf_heap && !live.count(sim.tool_buf)) viol("C20:stdio-buffer-outlives-its-storage", "the tool gave stdout/stderr a heap buffer and freed it before returning; exit() will flush from it");
            }
            if (usage_path) {
                // no file to work on / help asked for: nothing is read, nothing is judged; whatever the tool prints and returns
                ST.usage_invocations++;
                for (size_t i = 0; i < sim.fs.size(); i++) if (sim.fs[i].opened) viol("C20:file-read-on-usage-path", "help was asked for, yet input file " + std::to_string(i) + " was opened");
                if (sim.out.find("PASS") != string::npos || sim.out.find("FAIL") != string::npos) viol("C20:verdict-on-usage-path", "verdict lines printed although no file was to be read");
            } else {
            if (rc != 0) viol("C20:nonzero-exit-status", "eav returned " + std::to_string((int)rc));
            check_output(iv, sim);
            }
            // progress: no storm of reads after EOF
            for (auto &st : sim.fs) if (st.reads_after_eof > 3) viol("C20:keeps-reading-after-eof", "read callback invoked " + std::to_string(st.reads_after_eof) + " times after end of file");
            for (size_t i = 0; i < sim.fs.size(); i++) if (sim.fs[i].opened && !sim.fs[i].closed) viol("C20:file-not-closed", "input file " + std::to_string(i) + " was opened and never closed");
            drop_reachable_from_statics(live);
            if (!live.empty()) {
                size_t tot = 0; for (auto &kv : live) tot += kv.second.n;
                viol("C20:memory-not-released", std::to_string(live.size()) + " block(s), " + std::to_string(tot) + " bytes allocated during the run are still allocated when eav returns and not reachable from any static of the tool or the library");
            }
        }
        for (auto &st : sim.fs) {
            ST.reads += st.reads; ST.short_reads += st.short_reads;
            if (st.fault_fired) {
                any_fault_fired = true;
                if (st.f->ff_kind == "open") ST.fault_open++;
                else if (st.f->ff_errno == EINTR) ST.fault_read_eintr++; else ST.fault_read_eio++;
            }
            if (st.f->ff_kind == "open") ST.fault_open_attached++; else if (st.f->ff_kind == "read") ST.fault_read_attached++;
        }
        if (!iv.of_kind.empty()) { ST.fault_out_attached++; if (sim.of_fired) { ST.fault_out_fired++; any_fault_fired = true; } }
        ST.allocs += g_allocs; g_allocs = 0; g_frees = 0;
        g_live = nullptr;
        outs.push_back(sim.out);
        if (!dead) { fclose(sim.cap_out); fclose(sim.cap_err); }
        S = nullptr;
        return dead == 0;
    }

    void check_output(const SInv &iv, Sim &sim) {
        // the tool walks argv backwards
        bool out_fault = sim.of_fired;
        size_t cursor = 0;
        for (int fi = (int)iv.files.size() - 1; fi >= 0; fi--) {
            const SFile &f = iv.files[fi]; FileState &st = sim.fs[fi];
            ST.files++; ST.bytes += f.data.size();
            std::set<string> shapes;
            vector<Expect> ex = model_file(f.data, &shapes);
            string cc = chunk_class(f);
            ST.chunk_class[cc]++;
            string fk = f.ff_kind.empty() ? "nofault" : (f.ff_kind == "open" ? "open" : (f.ff_errno == EINTR ? "read-EINTR" : "read-EIO"));
            for (auto &s : shapes) { ST.shapes.insert(s); ST.tuples.insert(s + "|" + cc + "|" + fk); }
            ST.lines += f.nlines;
            string seg;
            if (st.out_marked) seg = sim.out.substr(st.out_begin, st.out_end >= st.out_begin ? st.out_end - st.out_begin : 0);
            rec("FILE " + std::to_string(fi) + " bytes=" + std::to_string(f.data.size()) + " verdicts=" + std::to_string(ex.size()) + " chunks=" + cc + " fault=" + fk + (st.fault_fired ? "(fired)" : "") + " out=" + std::to_string(seg.size()) + " reads=" + std::to_string(st.reads));
            if (out_fault) continue;        // stdout failed: only safety/termination are required
            if (!st.out_marked) { viol("C20:file-never-opened", "the tool did not open argument " + std::to_string(fi)); continue; }
            if (st.out_begin < cursor) viol("C20:output-order", "files were not processed in reverse argv order");
            cursor = st.out_end;
            if (f.ff_kind == "open") {
                if (!seg.empty()) viol("C20:verdicts-for-unopenable-file", "fopen failed but the tool printed verdicts for the file");
                continue;
            }
            // which verdicts are required exactly: all (no read fault fired) or those of lines that ended before the fault offset
            size_t need = ex.size(); bool relaxed = false;
            if (st.fault_fired) {
                relaxed = true; ST.relaxed_files++; need = 0;
                for (auto &e : ex) if ((long long)e.end_off <= f.ff_at) need++; else break;
            }
            size_t p = 0;
            for (size_t k = 0; k < need; k++) {
                const Expect &e = ex[k];
                size_t nl = seg.find('\n', p);
                if (nl == string::npos) { viol("C20:missing-verdict", "output ends after " + std::to_string(k) + " of " + std::to_string(need) + " expected verdicts (line shape " + e.shape + ")"); return; }
                string l = seg.substr(p, nl - p); p = nl + 1;
                string want = string(e.pass ? "PASS: " : "FAIL: ");
                if (l.compare(0, 6, want) != 0) {
                    string other = e.pass ? "FAIL: " : "PASS: ";
                    if (l.compare(0, 6, other) == 0) viol("C20:verdict-differs-from-library", "line #" + std::to_string(k) + " (shape " + e.shape + ") '" + e.echo.substr(0, 80) + "': tool says " + l.substr(0, 4) + ", eav_is_email says " + want.substr(0, 4));
                    else viol("C20:output-structure", "expected a verdict line for input line #" + std::to_string(k) + " (shape " + e.shape + "), got '" + l.substr(0, 80) + "'");
                    return;
                }
                ST.verdicts_checked++; nontrivial = true;
                if (e.exact) {
                    ST.exact_echo_checked++;
                    if (l.substr(6) != e.echo) { viol("C20:echo-differs", "well-formed line (shape " + e.shape + ") not echoed unchanged: in '" + e.echo.substr(0, 60) + "' (" + std::to_string(e.echo.size()) + " bytes) out '" + l.substr(6, 60) + "' (" + std::to_string(l.size() - 6) + " bytes)"); return; }
                }
                if (!e.pass) {
                    size_t nl2 = seg.find('\n', p);
                    if (nl2 == string::npos) { viol("C20:missing-error-message", "FAIL verdict without the following message line"); return; }
                    string m = seg.substr(p, nl2 - p); p = nl2 + 1;
                    if (m != "      " + e.err) { viol("C20:error-message-differs", "FAIL for '" + e.echo.substr(0, 60) + "' is followed by '" + m.substr(0, 80) + "', library message is '" + e.err + "'"); return; }
                }
            }
            if (!relaxed && p != seg.size()) {
                viol("C20:extra-output", "output continues after the last expected verdict: '" + seg.substr(p, 80) + "' (" + std::to_string(ex.size()) + " verdicts expected)");
                return;
            }
        }
    }

    void run() {
        vector<SInv> inv = structure(plan);
        rec("PLAN cfg=" + plan.cfg + " invocations=" + std::to_string(inv.size()));
        for (size_t i = 0; i < inv.size(); i++) {
            bool alive = run_invocation(inv[i], (int)i);
            if (!alive) { dead = true; break; }
            if (!viols.empty()) break;
        }
        rec("END");
    }
    bool dead = false;
};

static bool run_plan(const Plan &p, bool want_log, vector<Viol> &viols, uint64_t &h, vector<string> *logout, bool count = true) {
    Exec *ex = new Exec(p, want_log);
    ex->run();
    viols = ex->viols; h = ex->h;
    if (logout) *logout = ex->log;
    if (count) {
        ST.plans++;
        string oj; { sj::Value a = sj::Value::array(); for (auto &op : p.ops) a.push(op_to_json(op)); oj = sj::dump(a); }
        uint64_t ph = sim_fnv1a(SIM_FNV_INIT, oj.data(), oj.size());
        ST.plan_hashes.insert(ph);
        bool faultcfg = p.cfg != "nofault" && p.cfg != "nofault-longfile";
        if (ex->nontrivial && (!faultcfg || ex->any_fault_fired)) ST.nontrivial.insert(ph);
    }
    bool alive = !ex->dead;
    delete ex;
    return alive;
}

// ------------------------------------------------------------------ generation
static vector<string> g_addr;
static string g_repo = "/repo";
static void build_pool() {
    const char *fs[] = { "email-reg.ru.txt", "email-result-check.txt", "email-utf8.txt", "fail-email-ascii.txt", "pass-email-ascii.txt",
                         "retired.txt", "underscore.txt", "localpart-ascii.txt", "localpart-utf8.txt", "domain-length.txt", "xn-dash-domains.txt" };
    for (auto f : fs) {
        string s; try { s = sj::read_file(g_repo + "/data/" + f); } catch (...) { continue; }
        size_t i = 0;
        while (i < s.size()) {
            size_t j = s.find('\n', i); if (j == string::npos) j = s.size();
            string l = s.substr(i, j - i); if (!l.empty() && l.back() == '\r') l.pop_back();
            if (!l.empty() && l.find('\0') == string::npos) g_addr.push_back(l);
            i = j + 1;
        }
    }
    const char *more[] = { "user@iana.org", "user@example.com", "a@b.ru", "\xd0\xb8\xd0\xb2\xd0\xb0\xd0\xbd@\xd0\xbf\xd0\xbe\xd1\x87\xd1\x82\xd0\xb0.\xd1\x80\xd1\x84",
        "x@[1.2.3.4]", "no-at-sign", "@", "a@", "\"q s\"@mail.ru", "\xe7\x94\xa8\xe6\x88\xb7@\xe4\xbe\x8b\xe3\x81\x88.jp", "u@\xe2\x98\x95.de", "a b@c.com" };
    for (auto m : more) g_addr.push_back(m);
}

static string rnd_ascii(sim_rng &r, size_t n) {
    static const char al[] = "abcdefghijklmnopqrstuvwxyzABCDEFGHIJKLMNOPQRSTUVWXYZ0123456789.-_+";
    string s; for (size_t i = 0; i < n; i++) s += al[sim_below(&r, sizeof(al) - 1)];
    return s;
}
static string rnd_utf8(sim_rng &r, size_t nbytes) {
    static const char *cs[] = { "\xd0\xb6", "\xc3\xa9", "\xe4\xbd\xa0", "\xe2\x82\xac", "\xf0\x9f\x98\x80", "\xf0\x90\x8d\x88", "a", "z", ".", "\xc2\xa0", "\xef\xbf\xbd", "\xdf\xbf", "\xe0\xa0\x80", "\xf4\x8f\xbf\xbf" };
    string s; while (s.size() < nbytes) s += cs[sim_below(&r, 14)];
    return s;
}
static string bad_utf8(sim_rng &r) {
    static const char *bad[] = { "\xff", "\xc0\xaf", "\xe0\x80\xaf", "\xed\xa0\x80", "\xf4\x90\x80\x80", "\x80", "\xc3", "\xe2\x82", "\xf0\x9f\x98", "\xf8\x88\x80\x80\x80", "\xc3\x28", "\xfe" };
    string pre = sim_below(&r, 2) ? rnd_ascii(r, sim_below(&r, 6)) : rnd_utf8(r, sim_below(&r, 8));
    string suf = sim_below(&r, 2) ? rnd_ascii(r, sim_below(&r, 6)) : "";
    string at = sim_below(&r, 2) ? "@mail.ru" : "";
    return pre + bad[sim_below(&r, 12)] + suf + at;
}

static Op gen_line(sim_rng &r, unsigned longw) {
    Op op; op.k = "LINE";
    unsigned c = (unsigned)sim_below(&r, 100 + longw);
    if (c < 6) op.s = "";
    else if (c < 10) op.s = sim_below(&r, 2) ? " " : (sim_below(&r, 2) ? "\t" : "  ");
    else if (c < 14) op.s = "   " + string(sim_below(&r, 3), '\t');
    else if (c < 20) op.s = "#" + rnd_ascii(r, sim_below(&r, 30));
    else if (c < 23) op.s = " #" + rnd_ascii(r, sim_below(&r, 10));
    else if (c < 55) { op.s = g_addr[sim_below(&r, g_addr.size())]; if (sim_below(&r, 4) == 0) op.s = mut::mutate(&r, op.s); }
    else if (c < 62) op.s = " " + g_addr[sim_below(&r, g_addr.size())];
    else if (c < 69) op.s = g_addr[sim_below(&r, g_addr.size())] + (sim_below(&r, 2) ? " " : "\t");
    else if (c < 72) op.s = " " + g_addr[sim_below(&r, g_addr.size())] + " ";
    else if (c < 80) op.s = bad_utf8(r);
    else if (c < 85) { op.s = g_addr[sim_below(&r, g_addr.size())]; size_t p = sim_below(&r, op.s.size() + 1); op.s.insert(p, 1, (char)(1 + sim_below(&r, 31))); }
    else if (c < 88) {   // CR that is not part of a CRLF terminator: inside, at the very end (matters when the line has no LF), doubled, alone
        unsigned v = (unsigned)sim_below(&r, 6);
        if (v == 0) op.s = rnd_ascii(r, sim_below(&r, 10)) + "\r" + rnd_ascii(r, 1 + sim_below(&r, 10));
        else if (v == 1) op.s = g_addr[sim_below(&r, g_addr.size())] + "\r";
        else if (v == 2) op.s = "\r";
        else if (v == 3) op.s = g_addr[sim_below(&r, g_addr.size())] + "\r\r";
        else if (v == 4) op.s = "\r" + g_addr[sim_below(&r, g_addr.size())];
        else op.s = g_addr[sim_below(&r, g_addr.size())] + " \r";
    }
    else if (c < 90) { op.s = rnd_ascii(r, sim_below(&r, 8)) + string(1, '\0') + rnd_ascii(r, sim_below(&r, 8)); }
    else if (c < 93) { op.s = rnd_utf8(r, 1 + sim_below(&r, 40)) + "@" + rnd_utf8(r, 1 + sim_below(&r, 20)) + ".ru"; }
    else if (c < 100) { op.s = rnd_ascii(r, 1 + sim_below(&r, 20)) + "\x7f" + rnd_ascii(r, sim_below(&r, 5)); }
    else {
        // lengths clustered around power-of-two buffer sizes (the line, or the line plus its terminator, just below / at / above)
        static const size_t B[] = { 120, 128, 256, 512, 1024, 2048, 4096, 8192 };
        size_t n = B[sim_below(&r, 8)] + sim_below(&r, 8) - 5;
        if (sim_below(&r, 4) == 0) n = sim_below(&r, 8200);
        if (sim_below(&r, 12) == 0) n = 2 * 4095 - 3 + sim_below(&r, 6);
        unsigned kind = (unsigned)sim_below(&r, 4);
        if (kind == 0) op.s = rnd_ascii(r, n);
        else if (kind == 1) op.s = rnd_utf8(r, n);
        else if (kind == 2) { op.s = rnd_ascii(r, n / 2) + "@" + rnd_ascii(r, n - n / 2 - (n ? 1 : 0)); }
        else { op.s = rnd_ascii(r, n); for (size_t i = 0; i < op.s.size(); i += 7 + sim_below(&r, 50)) op.s[i] = (char)(1 + sim_below(&r, 31)); }
    }
    // invisible / signature characters in front of an otherwise ordinary line (U+FEFF byte order mark, NBSP, ZWSP, U+2028):
    // all well-formed UTF-8 without control characters, so the echo must be exact and the verdict the library's
    if (sim_below(&r, 100) < 6) {
        static const char *pre[] = { "\xef\xbb\xbf", "\xc2\xa0", "\xe2\x80\x8b", "\xe2\x80\xa8", "\xef\xbb\xbf ", " \xef\xbb\xbf", "\xef\xbf\xbe" };
        op.s = string(pre[sim_below(&r, 7)]) + op.s;
    }
    unsigned t = (unsigned)sim_below(&r, 100);
    op.t = t < 70 ? 0 : 1;
    return op;
}

static Plan gen_plan(const string &cfg, uint64_t seed, long long index) {
    Plan p; p.cfg = cfg; p.seed = seed; p.index = index;
    uint64_t rs = sim_mix64(seed ^ sim_mix64((uint64_t)index * 0x9E3779B97F4A7C15ULL + 20));
    sim_rng w = sim_derive(rs, 1), f = sim_derive(rs, 2), c = sim_derive(rs, 3);
    int ninv = 1 + (int)sim_below(&w, 3);
    unsigned longw = sim_below(&w, 3) == 0 ? (unsigned)sim_below(&w, 40) : (unsigned)sim_below(&w, 6);
    unsigned crlf_bias = (unsigned)sim_below(&w, 3);
    for (int iv = 0; iv < ninv; iv++) {
        Op inv; inv.k = "INVOKE";
        { unsigned lc = (unsigned)sim_below(&w, 10); inv.loc = lc < 6 ? 0 : lc < 8 ? 1 : 2; }
        { sim_rng u = sim_derive(rs, 40 + (uint64_t)iv); if (sim_below(&u, 40) == 0) inv.usage = 1 + (int)sim_below(&u, 2); }
        { sim_rng u = sim_derive(rs, 80 + (uint64_t)iv); if (sim_below(&u, 3) == 0) inv.tty = 1 + (int)sim_below(&u, 3); }
        { sim_rng u = sim_derive(rs, 120 + (uint64_t)iv); if (sim_below(&u, 12) == 0) inv.nostdin = 1; }                     // started from cron / a daemon: descriptor 0 is free     // one invocation in three writes to a terminal
        if (cfg == "outfault" && sim_below(&f, 100) < 70) {
            unsigned k = (unsigned)sim_below(&f, 3);
            inv.of_kind = k == 0 ? "short" : k == 1 ? "enospc" : "epipe"; inv.of_errno = k == 1 ? ENOSPC : EPIPE;
            inv.of_at = (long long)sim_below(&f, 3000);
        }
        p.ops.push_back(inv);
        int nf = 1 + (int)sim_below(&w, 3);
        bool many = sim_below(&w, 30) == 0;
        bool huge = sim_below(&w, 40) == 0;        // lines far beyond the usual sizes, in several files of one invocation
        if (cfg == "nofault-longfile") many = huge = false;     // (a long file times 257 operands, or times MiB lines, is gigabytes)
        if (many) {     // boundary values on the NUMBER of file operands (argv handling, per-file state, descriptors)
            static const int NF[] = { 15, 16, 17, 31, 32, 33, 63, 64, 65, 66, 100, 127, 128, 129, 255, 256, 257 };
            nf = NF[sim_below(&w, 17)];
        }
        for (int fi = 0; fi < nf; fi++) {
            Op fo; fo.k = "FILE"; fo.fkind = sim_below(&w, 7) == 0 ? 1 : 0;      // one operand in seven is a FIFO / pipe (fstat says size 0)
            fo.via = sim_below(&w, 5) == 0 ? 1 : 0;                               // one operand in five is a symbolic link to the file
            {   // what the user typed: one operand in five has a name that is awkward for whoever prints, formats or parses it
                sim_rng nr = sim_derive(rs, 1000 + (uint64_t)iv * 500 + (uint64_t)fi);
                if (sim_below(&nr, 5) == 0) {
                    static const char *NM[] = { "new%20subscribers.txt", "100%new.txt", "list%s.txt", "a%d%d%d%d.txt", "%n", "%", "%%", "50%.csv", "%s%s%s%s%s%s%s%s", "%1$s.txt", "%-200s", "%.999999f",
                        "name with spaces.txt", " lead.txt", "trail.txt ", "tab\there.txt", "line\nbreak.txt", "quo\"te.txt", "back\\slash", "semi;colon|pipe&amp.txt", "$(echo x).txt", "*?.txt",
                        "\xd0\xbf\xd0\xbe\xd1\x87\xd1\x82\xd0\xb0.txt", "\xff\xfe.txt", "-", "--", "-h", "--help", "-file.txt", "./a/../b.txt", "/", "/dev/null", ".", "..", "a//b", "~", "con", "file:///etc/passwd", "http://x/y?z=%41", "sim:0", "sim:999" };
                    fo.name = NM[sim_below(&nr, sizeof NM / sizeof NM[0])];
                    if (sim_below(&nr, 12) == 0) fo.name = string(200 + sim_below(&nr, 4000), 'n') + fo.name;      // longer than NAME_MAX / PATH_MAX
                    else if (sim_below(&nr, 8) == 0) {
                        // a deep path whose components are full of bytes that whoever prints the name will want to escape:
                        // legal (each component <= 255, the whole < PATH_MAX), yet several times longer once escaped
                        static const char *FILL[] = { "\x01", "\x1b", "\t", "%", "\\", "\x7f", "\xff", "\"" };
                        const char *fb = FILL[sim_below(&nr, 8)]; int comps = 1 + (int)sim_below(&nr, 15); size_t cl = 100 + sim_below(&nr, 156);
                        string pth; for (int c2 = 0; c2 < comps; c2++) { for (size_t x = 0; x < cl; x++) pth += fb; pth += "/"; }
                        fo.name = pth + "list.txt";
                    }
                }
            }
            int nl; unsigned lc = (unsigned)sim_below(&w, 100);
            if (lc < 8) nl = 0; else if (lc < 50) nl = 1 + (int)sim_below(&w, 5); else nl = 1 + (int)sim_below(&w, 40);
            if (many) nl = (int)sim_below(&w, 3);
            // rare long files: line / verdict counters (8- and 16-bit), many refills of the stream buffer
            if (!many && sim_below(&w, 120) == 0) nl = 250 + (int)sim_below(&w, 300);
            if (cfg == "nofault-longfile" && iv == 0 && fi == 0) nl = 65500 + (int)sim_below(&w, 200);     // ONE file beyond 2^16 lines per plan
            vector<Op> lines;
            if (huge && sim_below(&w, 3) != 0) {
                // up to a few MiB: a line (or four times a line) larger than the stack, than 2^20, than a pipe buffer
                static const size_t HL[] = { 16383, 16384, 16385, 20000, 32768, 65535, 65536, 65537, 70000, 100000, 131072, 1048576, 2200000, 3145728 };
                Op lo; lo.k = "LINE"; size_t n = HL[sim_below(&w, sim_below(&w, 4) == 0 ? 14 : 11)];
                lo.s = sim_below(&w, 3) ? rnd_ascii(w, n) : rnd_utf8(w, n);
                if (sim_below(&w, 4) == 0) for (size_t i = 0; i < lo.s.size(); i += 1 + sim_below(&w, 400)) lo.s[i] = (char)(1 + sim_below(&w, 31));
                lo.t = (int)sim_below(&w, 2);
                lines.push_back(lo);
                if (nl > 6) nl = 6;
            }
            unsigned lw = (nl > 60000) ? 0 : longw;      // the file with > 2^16 lines is about counters, not about bytes
            sim_rng sr = sim_derive(rs, 3000 + (uint64_t)iv * 500 + (uint64_t)fi);
            for (int l = 0; l < nl; l++) {
                Op lo = gen_line(w, lw); if (crlf_bias == 1) lo.t = 1; else if (crlf_bias == 2 && sim_below(&w, 2)) lo.t = 1; lines.push_back(lo);
                // siblings: the next line is a near-twin of this one (whoever remembers the previous line - to skip duplicates, to
                // reuse a verdict - meets lines that differ from it only in trailing blanks, a NUL, the terminator or one byte)
                if (lo.s.size() < 4096 && sim_below(&sr, 7) == 0) {
                    int n = 1 + (int)sim_below(&sr, 2);
                    for (int k = 0; k < n; k++) {
                        Op tw = lines.back();
                        switch ((int)sim_below(&sr, 10)) {
                        case 0: break;                                                              // exact duplicate
                        case 1: tw.s += sim_below(&sr, 2) ? " " : "\t"; break;
                        case 2: if (!tw.s.empty()) tw.s.back() = '\0'; break;                        // same length, NUL for the last byte
                        case 3: if (!tw.s.empty()) tw.s.back() = sim_below(&sr, 2) ? ' ' : '\t'; break;
                        case 4: tw.s += string(1, '\0'); break;
                        case 5: if (tw.s.size() > 1) tw.s[tw.s.size() - 2] = sim_below(&sr, 2) ? ' ' : '\0'; break;
                        case 6: tw.t = (tw.t + 1) % 2; break;                                         // other line terminator
                        case 7: if (!tw.s.empty()) { size_t p2 = sim_below(&sr, tw.s.size()); tw.s[p2] = (char)(tw.s[p2] ^ 0x20); } break;
                        case 8: tw.s = " " + tw.s; break;
                        default: if (!tw.s.empty()) tw.s.pop_back(); break;
                        }
                        lines.push_back(tw);
                    }
                }
            }
            if (!lines.empty() && sim_below(&w, 100) < 30) lines.back().t = 2;    // no final newline
            string data; vector<size_t> ends; vector<size_t> interesting;      // offsets where a chunk boundary is "interesting"
            for (auto &lo : lines) {
                size_t b = data.size();
                data += lo.s;
                for (size_t i = 0; i < lo.s.size(); i++) if (((unsigned char)lo.s[i] & 0xC0) == 0x80) interesting.push_back(b + i);   // inside a UTF-8 sequence
                if (lo.t == 1) { data += "\r\n"; interesting.push_back(data.size() - 1); }   // between CR and LF
                else if (lo.t == 0) data += "\n";
                ends.push_back(data.size()); interesting.push_back(data.size());            // exactly at a line end
            }
            // chunk schedule
            unsigned cm = (unsigned)sim_below(&c, 100);
            if (cm < 25) { /* full */ }
            else if (cm < 40) fo.chunks.push_back(1);
            else if (cm < 65) { int n = 1 + (int)sim_below(&c, 12); for (int i = 0; i < n; i++) fo.chunks.push_back(1 + (long long)sim_below(&c, sim_below(&c, 2) ? 16 : 5000)); }
            else if (!interesting.empty()) {
                // explicit sizes that put boundaries at interesting offsets
                std::set<size_t> cuts; int n = 1 + (int)sim_below(&c, 8);
                for (int i = 0; i < n; i++) cuts.insert(interesting[sim_below(&c, interesting.size())]);
                size_t prev = 0; for (size_t cu : cuts) if (cu > prev) { fo.chunks.push_back((long long)(cu - prev)); prev = cu; }
                fo.chunks.push_back(1 << 20);
            }
            // attached file fault
            if (cfg == "iofault" && sim_below(&f, 100) < 60) {
                unsigned k = (unsigned)sim_below(&f, 100);
                if (k < 25) { fo.ff_kind = "open"; static const int en[] = { ENOENT, EACCES, EMFILE }; fo.ff_errno = en[sim_below(&f, 3)]; }
                else {
                    fo.ff_kind = "read"; fo.ff_errno = sim_below(&f, 2) ? EINTR : EIO; fo.ff_transient = (int)sim_below(&f, 2);
                    unsigned where = (unsigned)sim_below(&f, 100);
                    if (data.empty() || where < 10) fo.ff_at = 0;
                    else if (where < 50 && !ends.empty()) fo.ff_at = (long long)ends[sim_below(&f, ends.size())];     // right after a line
                    else fo.ff_at = (long long)sim_below(&f, data.size() + 1);                                        // inside in-flight data
                }
            }
            p.ops.push_back(fo);
            for (auto &lo : lines) p.ops.push_back(lo);
            if (!many && fi + 1 < nf && sim_below(&w, 12) == 0) {   // the next operand is a byte-identical copy of this file
                Op fo2 = fo; fo2.chunks.clear(); p.ops.push_back(fo2);
                for (auto &lo : lines) p.ops.push_back(lo);
                fi++;
            }
        }
    }
    return p;
}

// ------------------------------------------------------------------ stats / main
static void write_hashes(const char *path) {
    if (!path || !*path) return;
    FILE *f = __real_fopen(path, "wb"); if (!f) return;
    for (uint64_t x : ST.plan_hashes) { uint64_t v = x & ~1ULL; fwrite(&v, 8, 1, f); }
    for (uint64_t x : ST.nontrivial) { uint64_t v = x | 1ULL; fwrite(&v, 8, 1, f); }
    fclose(f);
}
static sj::Value stats_json() {
    sj::Value j = sj::Value::object();
    j.set("plans", ST.plans); j.set("invocations", ST.invocations); j.set("usage_path_invocations", ST.usage_invocations); j.set("files", ST.files); j.set("lines", ST.lines); j.set("bytes", ST.bytes);
    j.set("steps", ST.steps); j.set("verdicts_checked", ST.verdicts_checked); j.set("exact_echo_checked", ST.exact_echo_checked);
    j.set("read_callbacks", ST.reads); j.set("short_reads", ST.short_reads); j.set("allocations_ledgered", ST.allocs);
    j.set("fault_fopen_attached", ST.fault_open_attached); j.set("fault_fopen_fired", ST.fault_open);
    j.set("fault_read_attached", ST.fault_read_attached); j.set("fault_read_eintr_fired", ST.fault_read_eintr); j.set("fault_read_eio_fired", ST.fault_read_eio);
    j.set("fault_stdout_attached", ST.fault_out_attached); j.set("fault_stdout_fired", ST.fault_out_fired); j.set("files_checked_relaxed", ST.relaxed_files);
    { sj::Value bl = sj::Value::object(); bl.set("C", ST.by_locale[0]); bl.set("C.UTF-8", ST.by_locale[1]); bl.set("single_byte_legacy8", ST.by_locale[2]); j.set("invocations_by_locale", bl); }
    sj::Value cc = sj::Value::object(); for (auto &kv : ST.chunk_class) cc.set(kv.first, kv.second); j.set("files_by_chunk_class", cc);
    sj::Value sh = sj::Value::array(); for (auto &s : ST.shapes) sh.push(sj::Value::str(s)); j.set("line_shapes", sh);
    sj::Value tu = sj::Value::array(); for (auto &s : ST.tuples) tu.push(sj::Value::str(s)); j.set("shape_chunk_fault_tuples", tu);
    return j;
}
static const char *arg(int argc, char **argv, const char *name, const char *def) { for (int i = 1; i + 1 < argc; i++) if (!strcmp(argv[i], name)) return argv[i + 1]; return def; }
static bool flag(int argc, char **argv, const char *name) { for (int i = 1; i < argc; i++) if (!strcmp(argv[i], name)) return true; return false; }

extern "C" __attribute__((used)) const char *__asan_default_options() { return "exitcode=77:detect_leaks=0:abort_on_error=0:detect_stack_use_after_return=0:quarantine_size_mb=16:thread_local_quarantine_size_kb=64"; }
extern "C" __attribute__((used)) const char *__ubsan_default_options() { return "halt_on_error=1:exitcode=77:print_stacktrace=1"; }

int main(int argc, char **argv) {
    if (argc < 2) { fprintf(stderr, "usage: cli gen|run|exec ...\n"); return 64; }
    string mode = argv[1];
    g_repo = arg(argc, argv, "--repo", getenv("VERIF_REPO") ? getenv("VERIF_REPO") : "/repo");
    setvbuf(stdout, nullptr, _IOLBF, 0);
    setlocale(LC_ALL, "");                      // warm-up: locale data is process-lifetime, not the tool's leak
    __sanitizer_install_malloc_and_free_hooks(mhook, fhook);
    string cfg = arg(argc, argv, "--cfg", "nofault");
    uint64_t seed = strtoull(arg(argc, argv, "--seed", "20261001"), nullptr, 10);
    if (mode == "exec") {
        sj::Value j = sj::parse(sj::read_file(arg(argc, argv, "--replay", "")));
        bool log = flag(argc, argv, "--log");
        vector<Plan> ps; const sj::Value *plans = j.get("plans");
        if (plans) for (auto &e : plans->a) ps.push_back(plan_from_json(e)); else ps.push_back(plan_from_json(j));
        int bad = 0;
        for (size_t i = 0; i < ps.size(); i++) {
            vector<Viol> v; uint64_t h; vector<string> lg;
            printf("B %zu\n", i);
            bool alive = run_plan(ps[i], log, v, h, &lg);
            if (log) for (auto &l : lg) printf("L %zu %s\n", i, sj::dump(sj::Value::str(l)).c_str());
            if (v.empty()) printf("R %zu ok %016llx %016llx\n", i, (unsigned long long)h, (unsigned long long)h);
            else { bad++; printf("V %zu %016llx %s | %s\n", i, (unsigned long long)h, v[0].cls.c_str(), sj::dump(sj::Value::str(v[0].detail)).c_str()); }
            if (!alive) { printf("X %zu process state untrusted, stopping\n", i); break; }
        }
        return bad ? 1 : 0;
    }
    build_pool();
    if (mode == "gen") {
        Plan p = gen_plan(cfg, seed, strtoll(arg(argc, argv, "--index", "0"), nullptr, 10));
        printf("%s\n", sj::dump(plan_to_json(p)).c_str()); return 0;
    }
    if (mode == "dump") {       // write the files of a plan and the stdout the in-process tool produced for them
        string dir = arg(argc, argv, "--outdir", ".");
        Plan p = gen_plan(cfg, seed, strtoll(arg(argc, argv, "--index", "0"), nullptr, 10));
        Exec ex(p, false); ex.run();
        vector<SInv> inv = structure(p);
        for (size_t i = 0; i < inv.size() && i < ex.outs.size(); i++) {
            if (inv[i].usage || inv[i].files.empty()) { FILE *fs = __real_fopen((dir + "/inv" + std::to_string(i) + ".skip").c_str(), "wb"); if (fs) fclose(fs); continue; }   // usage path: nothing to compare
            for (size_t f = 0; f < inv[i].files.size(); f++) {
                FILE *fh = __real_fopen((dir + "/inv" + std::to_string(i) + "_f" + std::to_string(f) + ".txt").c_str(), "wb");
                if (fh) { fwrite(inv[i].files[f].data.data(), 1, inv[i].files[f].data.size(), fh); fclose(fh); }
            }
            FILE *fo = __real_fopen((dir + "/inv" + std::to_string(i) + ".out").c_str(), "wb");
            if (fo) { fwrite(ex.outs[i].data(), 1, ex.outs[i].size(), fo); fclose(fo); }
        }
        printf("%zu %zu %d\n", inv.size(), ex.outs.size(), (int)ex.viols.size());
        return ex.viols.empty() ? 0 : 1;
    }
    if (mode == "run") {
        long long start = strtoll(arg(argc, argv, "--start", "0"), nullptr, 10), stride = strtoll(arg(argc, argv, "--stride", "1"), nullptr, 10);
        long long count = strtoll(arg(argc, argv, "--count", "100"), nullptr, 10);
        double secs = atof(arg(argc, argv, "--secs", "0"));
        bool twice = flag(argc, argv, "--twice"), samples = flag(argc, argv, "--samples");
        auto t0 = std::chrono::steady_clock::now(); long long done = 0;
        for (long long n = 0; n < count; n++) {
            long long idx = start + n * stride;
            if (secs > 0 && (n & 7) == 0 && std::chrono::duration<double>(std::chrono::steady_clock::now() - t0).count() > secs) break;
            Plan p = gen_plan(cfg, seed, idx);
            printf("B %lld\n", idx);
            vector<Viol> v; uint64_t h;
            bool alive = run_plan(p, false, v, h, nullptr);
            done++;
            if (v.empty()) {
                printf("R %lld ok %016llx %016llx\n", idx, (unsigned long long)h, (unsigned long long)h);
                if (twice && alive) {
                    vector<Viol> v2; uint64_t h2; run_plan(p, false, v2, h2, nullptr, false);
                    if (h2 != h || !v2.empty()) printf("N %lld %016llx %016llx\n", idx, (unsigned long long)h, (unsigned long long)h2); else printf("T %lld\n", idx);
                }
                if (samples && n < 2) printf("P %lld %s\n", idx, sj::dump(plan_to_json(p)).c_str());
            } else {
                printf("V %lld %016llx %s | %s\n", idx, (unsigned long long)h, v[0].cls.c_str(), sj::dump(sj::Value::str(v[0].detail)).c_str());
                printf("P %lld %s\n", idx, sj::dump(plan_to_json(p)).c_str());
            }
            if (!alive) { printf("X %lld worker state untrusted after abort/assert, exiting\n", idx); write_hashes(arg(argc, argv, "--hashes-out", "")); printf("S %s\n", sj::dump(stats_json()).c_str()); return 3; }
        }
        write_hashes(arg(argc, argv, "--hashes-out", ""));
        printf("S %s\n", sj::dump(stats_json()).c_str());
        printf("D %lld\n", done);
        return 0;
    }
    return 64;
}

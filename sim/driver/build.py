"""Out-of-tree builds of /repo's current working tree for the simulators.

Nothing is ever written into /repo.  Object names carry the source directory because
both src/eav.c and partial/<backend>/eav.c exist."""
import os, subprocess, hashlib, shutil, glob, json, re

VERIF = os.path.dirname(os.path.dirname(os.path.dirname(os.path.abspath(__file__))))
REPO = os.environ.get("VERIF_REPO", "/repo")
BUILD = os.path.join(VERIF, "build")
CC = "clang"
CXX = "clang++"

REPO_CPP = ["-D_DEFAULT_SOURCE", "-D_XOPEN_SOURCE=700", "-D_SVID_SOURCE", "-fPIC"]

BACKEND_DEFS = {
    "idn2": ["-DHAVE_LIBIDN2"],
    "idn": ["-DHAVE_LIBIDN", "-I" + os.path.join(VERIF, "sim/adapters/idn")],
    "idnkit": ["-DHAVE_IDNKIT", "-I" + os.path.join(VERIF, "sim/adapters/idnkit")],
}

ASAN = ["-O1", "-g", "-fsanitize=address,undefined", "-fno-sanitize-recover=undefined",
        "-fno-builtin", "-fno-omit-frame-pointer"]


class BuildError(Exception):
    pass


def run(cmd, **kw):
    p = subprocess.run(cmd, stdout=subprocess.PIPE, stderr=subprocess.STDOUT, text=True, **kw)
    if p.returncode != 0:
        raise BuildError("command failed: %s\n%s" % (" ".join(cmd), p.stdout))
    return p.stdout


def lib_sources(backend, with_lib_decoder=True):
    srcs = sorted(glob.glob(os.path.join(REPO, "src", "*.c")))
    if not with_lib_decoder:
        srcs = [s for s in srcs if os.path.basename(s) != "utf8_decode.c"]
    srcs += sorted(glob.glob(os.path.join(REPO, "partial", backend, "*.c")))
    return srcs


def objname(src):
    rel = os.path.relpath(src, REPO)
    return rel.replace("/", "_").replace(".c", ".o")


_SIM_HASH = None


def sim_sources_hash():
    """hash of every harness source under /verif/sim (cache key part for harness objects)"""
    global _SIM_HASH
    if _SIM_HASH is None:
        h = hashlib.sha256()
        for root, dirs, files in sorted(os.walk(os.path.join(VERIF, "sim"))):
            dirs.sort()
            for f in sorted(files):
                if f.endswith((".c", ".cpp", ".h", ".hpp")):
                    h.update(f.encode())
                    with open(os.path.join(root, f), "rb") as fh:
                        h.update(fh.read())
        _SIM_HASH = h.hexdigest()
    return _SIM_HASH


def repo_headers_hash():
    h = hashlib.sha256()
    for pat in ("include/*.h", "include/eav/*.h"):
        for f in sorted(glob.glob(os.path.join(REPO, pat))):
            with open(f, "rb") as fh:
                h.update(fh.read())
    return h.hexdigest()


def compile_many(jobs, cacheable=()):
    """jobs: list of (cmd list). Runs them in parallel.  Jobs whose index is in `cacheable`
    compile harness-only sources (nothing from /repo) and are cached under build/cache."""
    procs = []
    cache_dir = os.path.join(BUILD, "cache")
    os.makedirs(cache_dir, exist_ok=True)
    for i, cmd in enumerate(jobs):
        out = cmd[cmd.index("-o") + 1]
        key = None
        if i in cacheable:
            dep = sim_sources_hash()
            if any(a.startswith("-I" + REPO) for a in cmd):
                dep += repo_headers_hash()      # the object sees the repository's headers (eav_t layout): part of the key
            key = hashlib.sha256((" ".join(cmd[:cmd.index("-o")]) + dep).encode()).hexdigest()[:24]
            c = os.path.join(cache_dir, key + ".o")
            if os.path.exists(c):
                shutil.copyfile(c, out)
                continue
        procs.append((cmd, subprocess.Popen(cmd, stdout=subprocess.PIPE, stderr=subprocess.STDOUT, text=True), key, out))
    errs = []
    for cmd, p, key, out in procs:
        o, _ = p.communicate()
        if p.returncode != 0:
            errs.append("command failed: %s\n%s" % (" ".join(cmd), o))
        elif key:
            shutil.copyfile(out, os.path.join(cache_dir, key + ".o"))
    if errs:
        raise BuildError("\n".join(errs))


def compile_lib(variant_dir, backend, cflags, extra_defs=(), with_lib_decoder=True):
    os.makedirs(variant_dir, exist_ok=True)
    objs, jobs = [], []
    for src in lib_sources(backend, with_lib_decoder):
        o = os.path.join(variant_dir, objname(src))
        cmd = [CC, "-std=c99", "-Wall", "-Wextra"] + REPO_CPP + ["-I" + os.path.join(REPO, "include"), "-I" + REPO] \
            + BACKEND_DEFS[backend] + list(extra_defs) + list(cflags) + ["-c", src, "-o", o]
        jobs.append(cmd)
        objs.append(o)
    compile_many(jobs)
    return objs


def undefined_externals(objs):
    out = run(["nm", "-u"] + objs)
    syms = set()
    for line in out.splitlines():
        line = line.strip()
        if line.startswith("U "):
            syms.add(line[2:].strip())
    defined = set()
    out = run(["nm", "--defined-only"] + objs)
    for line in out.splitlines():
        parts = line.split()
        if len(parts) == 3 and parts[1] in "TtDdBbRrCc":
            defined.add(parts[2])
    return sorted(s for s in syms - defined if not s.startswith("__asan") and not s.startswith("__ubsan")
                  and not s.startswith("__tsan") and not s.startswith("__sanitizer") and s != "_GLOBAL_OFFSET_TABLE_")


def rename_writable_sections(objs):
    """.data/.bss/.data.rel* of the library objects -> eavdata/eavbss, so that the linker emits __start_/__stop_ symbols:
    the simulators know where the library's static storage is (pristine reset in C14, reachability in the ledgers)"""
    for o in objs:
        run(["objcopy", "--rename-section", ".data=eavdata", "--rename-section", ".bss=eavbss",
             "--rename-section", ".data.rel=eavdata", "--rename-section", ".data.rel.local=eavdata", o])


def rename_init_fini(objs):
    """C14 models the process lifetime: the library objects' constructor / destructor tables are renamed (eavinit / eavfini)
    so that the loader does not run them; the simulator runs the constructors at the start of every simulated process and
    the destructors when a simulated thread calls exit()"""
    for o in objs:
        out = subprocess.run(["readelf", "-S", "-W", o], stdout=subprocess.PIPE, stderr=subprocess.DEVNULL).stdout.decode("latin-1")
        args = []
        for m in re.finditer(r"\]\s+(\.(?:init_array|fini_array|ctors|dtors)[^\s]*)\s", out):
            n = m.group(1)
            if n.startswith(".rela"):
                continue
            args += ["--rename-section", "%s=%s" % (n, "eavinit" if n.startswith((".init_array", ".ctors")) else "eavfini")]
        if args:
            run(["objcopy"] + args + [o])


# "the other configuration": what a release build on another ABI looks like - assert() compiled out, plain char unsigned
# (ARM, AArch64, PowerPC, s390x, RISC-V Linux); both Makefiles take CFLAGS from the user
ALT_CONFIG = ["-DNDEBUG", "-funsigned-char"]


HIST_WRAPS = ["malloc", "free", "calloc", "realloc", "strndup", "strdup", "abort", "__assert_fail"]


FLAG_DEFS = ["-DRFC6531_FOLLOW_RFC5322", "-DRFC6531_FOLLOW_RFC20", "-DLABELS_ALLOW_UNDERSCORE"]


def build_hist(backend, extra=False, flags=False, ndebug=False, plain=False, debug=False):
    """history simulator for one backend -> path of executable.  ndebug: the release configuration (-DNDEBUG: assert()
    compiled out of the library; the Makefile's CFLAGS are the user's to set)"""
    name = "hist-%s%s%s%s%s" % (backend, "-extra" if extra else "", "-flags" if flags else "", "-ndebug" if ndebug else "", "-plain" if plain else "") + ("-debug" if debug else "")
    ASAN = globals()["ASAN"] if not plain else ["-O2", "-g", "-fno-omit-frame-pointer"]      # plain: optimised, no sanitizer (volume runs)
    d = os.path.join(BUILD, name)
    if os.path.isdir(d):
        shutil.rmtree(d)
    defs = (["-DEAV_EXTRA"] if extra else []) + (FLAG_DEFS if flags else []) + (ALT_CONFIG if ndebug else []) + (["-D_DEBUG"] if debug else [])     # debug: the Makefile's own `make debug` configuration
    objs = compile_lib(d, backend, ASAN + ["-fsanitize-coverage=trace-pc-guard"], defs)      # edge coverage of the library only (corpus growth)
    ext = [x for x in undefined_externals(objs) if not x.startswith("__sanitizer_cov")]
    rename_writable_sections(objs)
    inc = ["-I" + os.path.join(REPO, "include"), "-I" + REPO] + BACKEND_DEFS[backend] + defs
    sim = os.path.join(VERIF, "sim")
    jobs = []
    cacheable = set()
    shim_o = os.path.join(d, "shim.o")
    jobs.append([CC, "-std=gnu99", "-Wall"] + REPO_CPP + inc + ASAN + ["-c", os.path.join(sim, "hist/shim.c"), "-o", shim_o])
    rt_o = os.path.join(d, "simrt.o")
    rtdefs = ["-DSIM_WRAP_IDN2"] if backend == "idn2" else []
    cacheable.add(len(jobs))
    jobs.append([CC, "-std=gnu99", "-Wall"] + ASAN + rtdefs + ["-c", os.path.join(sim, "hist/simrt.c"), "-o", rt_o])
    more = [shim_o, rt_o]
    if backend != "idn2":
        ad_o = os.path.join(d, "adapter.o")
        cacheable.add(len(jobs))
        jobs.append([CC, "-std=gnu99", "-Wall"] + ASAN + ["-I" + os.path.join(sim, "adapters")]
                    + ["-c", os.path.join(sim, "adapters/adapter_%s.c" % backend), "-o", ad_o])
        more.append(ad_o)
    h_o = os.path.join(d, "hist.o")
    cacheable.add(len(jobs))
    jobs.append([CXX, "-std=c++17", "-Wall"] + ASAN + ["-c", os.path.join(sim, "hist/hist.cpp"), "-o", h_o])
    more.append(h_o)
    compile_many(jobs, cacheable)
    exe = os.path.join(d, "hist")
    wraps = list(HIST_WRAPS) + (["idn2_to_ascii_8z", "idn2_to_ascii_lz", "idn2_lookup_u8", "idn2_lookup_ul",
                                 "idn2_to_unicode_8z8z", "idn2_to_unicode_8zlz", "idn2_to_unicode_lzlz"] if backend == "idn2" else [])
    run([CXX] + ([] if plain else ["-fsanitize=address,undefined"]) + ["-o", exe] + more + objs + ["-lidn2"]
        + ["-Wl," + ",".join("--wrap=" + w for w in wraps)])
    return exe, ext


def tree_fingerprint():
    """hash of the repo sources that the builds read (reported in evidence)"""
    h = hashlib.sha256()
    for pat in ("src/*.c", "src/*.h", "partial/*/*.c", "include/*.h", "include/eav/*.h", "bin/*.c", "bin/*.h"):
        for f in sorted(glob.glob(os.path.join(REPO, pat))):
            h.update(f.encode())
            with open(f, "rb") as fh:
                h.update(fh.read())
    return h.hexdigest()[:16]


def build_locale():
    """A single-byte, Latin-1-like locale (0x80..0x9f are control characters) compiled with localedef into build/locale:
    the tool calls setlocale(LC_ALL, "") and only C / C.UTF-8 / POSIX are installed here.  Returns the LOCPATH or None."""
    d = os.path.join(BUILD, "locale")
    tgt = os.path.join(d, "xx_XX.LEGACY8")
    if os.path.exists(os.path.join(tgt, "LC_CTYPE")):
        return d
    try:
        os.makedirs(d, exist_ok=True)
        cm = os.path.join(d, "LEGACY8.charmap")
        with open(cm, "w") as f:
            f.write("<code_set_name> LEGACY8\n<comment_char> %\n<escape_char> /\n<mb_cur_max> 1\n<mb_cur_min> 1\nCHARMAP\n")
            for i in range(256):
                f.write("<U%04X> /x%02x\n" % (i, i))
            f.write("END CHARMAP\n")
        subprocess.run(["localedef", "-c", "-f", cm, "-i", os.path.join(VERIF, "sim/cli/locale/legacy8.src"), tgt],
                       stdout=subprocess.PIPE, stderr=subprocess.STDOUT)
        return d if os.path.exists(os.path.join(tgt, "LC_CTYPE")) else None
    except Exception:
        return None


CLI_WRAPS = ["fopen", "open", "open64", "fdopen", "read", "close", "lseek", "posix_fadvise", "abort", "__assert_fail", "exit", "fileno", "fstat", "stat", "lstat", "stat64", "lstat64", "fstatat", "fstatat64", "access", "isatty", "setvbuf", "setlocale", "strerror"]


def build_cli(ndebug=False):
    """ndebug: the tool and the library it links compiled with -DNDEBUG (release configuration); the reference copy is not.
    CLI simulator: bin/main.c (as eav_cli_main) + bin/utf8_decode.c + library objects WITHOUT
    src/utf8_decode.c - the shipped link resolves the library's utf8_decode_* calls to the
    executable's own file-scope-static decoder, so this reproduces what `eav` really runs."""
    d = os.path.join(BUILD, "cli-ndebug" if ndebug else "cli")
    if os.path.isdir(d):
        shutil.rmtree(d)
    nd = ALT_CONFIG if ndebug else []
    objs = compile_lib(d, "idn2", ASAN, nd, with_lib_decoder=False)
    inc = ["-I" + os.path.join(REPO, "include"), "-I" + REPO, "-DHAVE_LIBIDN2"]
    cpp = ["-D_DEFAULT_SOURCE", "-D_XOPEN_SOURCE=700", "-D_SVID_SOURCE", "-D__EXTENSIONS__"] + nd
    jobs = []
    main_o = os.path.join(d, "bin_main.o")
    jobs.append([CC, "-std=c99", "-Wall", "-Wextra"] + cpp + inc + ASAN + ["-Dmain=eav_cli_main", "-c", os.path.join(REPO, "bin/main.c"), "-o", main_o])
    dec_o = os.path.join(d, "bin_utf8_decode.o")
    jobs.append([CC, "-std=c99", "-Wall"] + cpp + inc + ASAN + ["-c", os.path.join(REPO, "bin/utf8_decode.c"), "-o", dec_o])
    sim_o = os.path.join(d, "cli_sim.o")
    jobs.append([CXX, "-std=c++17", "-Wall"] + ASAN + inc + ["-c", os.path.join(VERIF, "sim/cli/cli_sim.cpp"), "-o", sim_o])
    compile_many(jobs, {2})
    rename_writable_sections(objs + [main_o, dec_o])
    # an independent copy of the WHOLE library (with its own decoder) for the reference model: every global it
    # defines is renamed ref_<name>, so the oracle's verdicts cannot be influenced by the tool's interposing symbols
    rd = os.path.join(d, "ref")
    robjs = compile_lib(rd, "idn2", ASAN, [], with_lib_decoder=True)
    defined = set()
    for line in run(["nm", "--defined-only", "-g"] + robjs).splitlines():
        parts = line.split()
        if len(parts) == 3 and parts[1] in "TDBRCVWGS":
            defined.add(parts[2])
    defined = sorted(x for x in defined if not x.startswith("__asan") and not x.startswith("__ubsan") and not x.startswith("asan.") and not x.startswith("__odr_asan"))
    mapf = os.path.join(rd, "redefine.txt")
    with open(mapf, "w") as f:
        for x in defined:
            f.write("%s ref_%s\n" % (x, x))
    for o in robjs:
        run(["objcopy", "--redefine-syms=" + mapf, o])
    exe = os.path.join(d, "cli")
    run([CXX, "-fsanitize=address,undefined", "-o", exe, sim_o, main_o, dec_o] + objs + robjs + ["-lidn2"]
        + ["-Wl," + ",".join("--wrap=" + w for w in CLI_WRAPS)])
    ext = undefined_externals([main_o, dec_o])
    return exe, ext


SCHED_WRAPS = ["malloc", "free", "calloc", "realloc", "strdup", "strndup", "strlen", "strchr", "strrchr", "strstr", "strspn", "strcspn",
               "strncasecmp", "strcasecmp", "strcmp", "strncmp", "memcpy", "memmove", "memset", "memcmp", "memchr", "strcpy", "strncpy",
               "sprintf", "snprintf", "vsprintf", "vsnprintf", "strcat", "strncat", "stpcpy", "strtok_r", "strsep",
               "idn2_to_ascii_8z", "strtok", "strerror", "rand", "srand", "setlocale", "getenv", "setenv", "unsetenv", "putenv", "clearenv", "abort", "__assert_fail", "atexit", "on_exit", "pthread_self", "pthread_getattr_np", "hcreate", "hsearch", "hdestroy", "localtime", "gmtime", "asctime", "ctime", "random", "srandom", "drand48", "lrand48",
               "pthread_mutex_lock", "pthread_mutex_trylock", "pthread_mutex_unlock", "pthread_mutex_init", "pthread_mutex_destroy",
               "pthread_rwlock_rdlock", "pthread_rwlock_wrlock", "pthread_rwlock_unlock", "pthread_once", "sched_yield",
               "sem_init", "sem_destroy", "sem_wait", "sem_trywait", "sem_timedwait", "sem_post"]

# externals of the library objects that the C14 runtime models (anything else is reported as unmodelled)
SCHED_MODELLED = set(SCHED_WRAPS) | {"__ctype_b_loc", "__ctype_tolower_loc", "__ctype_toupper_loc", "idn2_strerror", "__errno_location",
                                       "idna_to_ascii_lz", "idna_strerror", "idn_res_encodename", "idn_resconf_create", "idn_resconf_destroy",
                                       "idn_resconf_initialize", "idn_result_tostring"}
HIDDEN_STATE = {"strtok", "strerror", "rand", "srand", "setlocale", "localtime", "gmtime", "asctime", "ctime", "hsearch", "hcreate", "hdestroy",
                "getpwnam", "getpwuid", "gethostbyname", "readdir", "ttyname", "tmpnam", "drand48", "lrand48", "random", "srandom", "ecvt", "fcvt", "getenv", "setenv", "putenv"}


def build_sched(variant="", defs=(), backend="idn2"):
    """C14: library compiled with -fsanitize=thread (compiler inserts __tsan_* calls), linked against
    sim/sched/rt.cpp instead of libtsan.  The library objects' writable sections are renamed so that
    the linker brackets them with __start_/__stop_ symbols (pristine snapshot / reset per run)."""
    d = os.path.join(BUILD, "sched" + variant)
    if os.path.isdir(d):
        shutil.rmtree(d)
    tsan = ["-O1", "-g", "-gdwarf-4", "-fsanitize=thread", "-fno-builtin", "-fno-omit-frame-pointer"]
    objs = compile_lib(d, backend, tsan, list(defs))
    ext = undefined_externals(objs)
    rename_writable_sections(objs)
    rename_init_fini(objs)
    sim = os.path.join(VERIF, "sim")
    inc = ["-I" + os.path.join(REPO, "include"), "-I" + REPO] + BACKEND_DEFS[backend] + [x for x in defs if x.startswith("-D")]
    plain = ["-O1", "-g", "-gdwarf-4", "-fno-omit-frame-pointer", "-fPIC"]
    rt_o = os.path.join(d, "rt.o"); sm_o = os.path.join(d, "sched_sim.o")
    simdefs = [x for x in defs if x.startswith("-DSIM_")]
    jobs = [[CXX, "-std=c++17", "-Wall"] + plain + simdefs + ["-c", os.path.join(sim, "sched/rt.cpp"), "-o", rt_o],
            [CXX, "-std=c++17", "-Wall"] + plain + inc + ["-c", os.path.join(sim, "sched/sched_sim.cpp"), "-o", sm_o]]
    more = []
    if backend != "idn2":       # the libidn / idnkit stand-in (uninstrumented, like the real library would be) over the same converter
        ad_o = os.path.join(d, "adapter.o"); cv_o = os.path.join(d, "conv_shim.o")
        jobs.append([CC, "-std=gnu99", "-Wall"] + plain + ["-I" + os.path.join(sim, "adapters")] + ["-c", os.path.join(sim, "adapters/adapter_%s.c" % backend), "-o", ad_o])
        jobs.append([CC, "-std=gnu99", "-Wall"] + plain + ["-c", os.path.join(sim, "sched/conv_shim.c"), "-o", cv_o])
        more = [ad_o, cv_o]
    compile_many(jobs, {0})
    exe = os.path.join(d, "sched")
    run([CXX, "-rdynamic", "-o", exe, sm_o, rt_o] + more + objs + ["-lidn2", "-lpthread", "-ldl"]
        + ["-Wl," + ",".join("--wrap=" + w for w in SCHED_WRAPS)])
    unmodelled = [s for s in ext if s not in SCHED_MODELLED]
    hidden = [s for s in ext if s in HIDDEN_STATE]
    return exe, {"library_externals": ext, "unmodelled_externals": unmodelled, "hidden_state_externals": hidden}

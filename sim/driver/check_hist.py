"""Entry points for C13, C19 and C18."""
import os, sys, json, time
import build, core
from hist_checks import Batch, triage, determinism_selftest, exec_plans, gen_plan

REAL_STUB = {
    "idn2": ["libeav (src/*.c, partial/idn2/*.c): real code compiled from /repo with ASan+UBSan",
             "libidn2: real library; idn2_to_ascii_8z reached through -Wl,--wrap (real call unless a fault is attached)",
             "allocator: real (ASan) behind --wrap ledger with seeded fill",
             "eav_t memory: harness-owned, filled from the plan's memory-fill stream before eav_init"],
    "idn": ["libeav (src/*.c, partial/idn/*.c): real code", "GNU libidn API: STUB adapter (sim/adapters) over real libidn2 conversion, libidn return-code numbering"],
    "idnkit": ["libeav (src/*.c, partial/idnkit/*.c): real code", "idnkit API: STUB adapter (sim/adapters) over real libidn2 conversion, resolver contexts = ledger slots"],
}


def finish(prop, tier, seed, t0, level, batches, det, violations, known_lines, nondet_msgs, extra_cov, assumptions, rule, build_info):
    stats = None
    allh, nont = set(), set()
    done = 0
    wall_sim = 0.0
    per_batch = []
    samples = []
    for b in batches:
        stats = core.merge_stats(stats, b.stats)
        allh |= b.all_hashes; nont |= b.nontrivial
        done += b.done; wall_sim += b.wall
        per_batch.append({"batch": b.name, "cfg": b.cfg, "backend": os.path.basename(os.path.dirname(b.exe)), "plans": b.done,
                          "workers": b.workers, "wall_s": round(b.wall, 2),
                          "distinct_plans": len(b.all_hashes), "distinct_nontrivial": len(b.nontrivial)})
        for s in b.samples_list()[:2]:
            s = dict(s); s["ops"] = s["ops"][:25]
            samples.append(s)
    wall = time.time() - t0
    cov = {
        "evaluations": done,
        "distinct_nontrivial": len(nont),
        "rule": rule,
        "samples": samples[:6] if samples else [{"note": "no sample captured"}],
        "distinct_plans": len(allh),
        "simulated_runs_per_hour": int(done / wall_sim * 3600) if wall_sim > 0 else 0,
        "seeds_per_hour": int(done / wall_sim * 3600) if wall_sim > 0 else 0,
        "simulated_time": "none exists in libeav (no clock, timer or deadline); logical steps executed: %d" % (stats or {}).get("steps", 0),
        "logical_steps": (stats or {}).get("steps", 0),
        "batches": per_batch,
        "determinism_selftest": det,
        "stats": {k: v for k, v in (stats or {}).items() if k not in ("transition_classes",)},
        "transition_classes_reached": len((stats or {}).get("transition_classes", [])),
        "transition_class_measure": "(confirmed mode | none) x (last outcome class: none/ok/syntax/idn/tld) x (result live) x (next op kind) x (fault attached)",
        "fault_kinds": {
            "idn_conversion_fault": {"attached": (stats or {}).get("idn_fault_attached", 0), "fired": (stats or {}).get("idn_fault_fired", 0),
                                     "by_buffer_mode": (stats or {}).get("idn_fault_fired_by_buffer_mode", {}),
                                     "distinct_codes_fired": len((stats or {}).get("idn_fault_fired_by_code", {}))},
            "backend_init_fault": {"attached": (stats or {}).get("setup_fault_attached", 0), "fired": (stats or {}).get("setup_fault_fired", 0)},
            "poisoned_memory": "every eav_t and every library malloc block filled from the plan's fill stream",
        },
        "components": build_info,
        "known_findings_reported": known_lines,
        "nondeterministic_reports": nondet_msgs,
    }
    # reach probes: things the workload is meant to hit; anything listed here was NOT hit in this run
    st = stats or {}
    zero = []
    modes = ["822", "5321", "5322", "6531"]
    ms = st.get("mode_switch_then_validated", {})
    for a in modes + (["none"] if prop != "C19" else []):
        for b in modes:
            if a != b and not ms.get("%s->%s" % (a, b)):
                zero.append("mode switch %s->%s followed by a validation" % (a, b))
    if prop in ("C13", "C18"):
        seen = set(st.get("errcodes_seen", []))
        # 1 (INVALID_RFC) is not an eav_is_email outcome; 33/35 (TEST/RETIRED TLD classes) do not occur in the generated table
        for ec in range(0, 36):
            if ec not in seen and ec not in (1, 33, 35):
                zero.append("errcode %d as an eav_is_email outcome" % ec)
    for k in ("setup_ok", "errstr_checked", "outcome_comparisons", "ledger_checks", "reference_executions") + (("setup_invalid_rfc", "free_init") if prop != "C19" else ()):
        if not st.get(k):
            zero.append(k)
    if any(b.cfg in ("fault", "single", "multi", "lockstep-fault", "fault-long") for b in batches):
        fb = st.get("idn_fault_fired_by_buffer_mode", {})
        for k in ("A_output_untouched", "B_buffer_produced", "C_converted_then_failed"):
            if not fb.get(k):
                zero.append("IDN fault with buffer mode " + k)
        if len(st.get("idn_fault_fired_by_code", {})) < 30:
            zero.append("some of the 30 IDN return codes never fired (%d did)" % len(st.get("idn_fault_fired_by_code", {})))
    if prop == "C18":
        for k in ("ctx_created", "ctx_destroyed_by_setup", "ctx_destroyed_by_free", "setup_fault_fired", "left_6531_for_ascii"):
            if not st.get(k):
                zero.append(k)
    if prop == "C19":
        for k in ("containment_checks", "low_level_calls"):
            if not st.get(k):
                zero.append(k)
    cov["probes_at_zero"] = zero
    cov.update(extra_cov or {})
    core.write_evidence(prop, tier, seed, level, cov, assumptions, wall, len(violations))


def replay_mode(prop, path):
    with open(path) as f:
        rep = json.load(f)
    backend = rep.get("backend", "hist-idn2")
    b = backend.replace("hist-", "")
    debug = b.endswith("-debug")
    b = b.replace("-debug", "")
    plain = b.endswith("-plain")
    b = b.replace("-plain", "")
    ndebug = b.endswith("-ndebug")
    b = b.replace("-ndebug", "")
    flags = b.endswith("-flags")
    b = b.replace("-flags", "")
    extra = b.endswith("-extra")
    b = b.replace("-extra", "")
    if rep.get("lockstep"):
        exes = {}
        variant = (rep.get("found") or {}).get("variant", "")
        for bk in ("idn2", "idn", "idnkit"):
            exes[bk], _ = build.build_hist(bk, extra=(variant == "extra"), ndebug=(variant == "ndebug"), flags=(variant == "flags"))
        res = {bk: exec_plans(exes[bk], rep["plans"], log=True) for bk in exes}
        for bk, r in res.items():
            print("--- backend %s: class=%s neutral=%s" % (bk, r["cls"], r["neutral"]))
        neutral = {bk: (r["cls"], tuple(r["neutral"])) for bk, r in res.items()}
        if len(set(neutral.values())) > 1:
            print("VIOLATION property=%s replay=%s" % (prop, path))
            return 1
        print("replay: backends agree")
        return 0
    exe, _ = build.build_hist(b, extra=extra, flags=flags, ndebug=ndebug, plain=plain, debug=debug)
    r = exec_plans(exe, rep["plans"], log=True)
    for l in r["logs"]:
        print("  " + l)
    print("replay: class=%s detail=%s hash=%s (recorded class=%s hash=%s)" % (r["cls"], r["detail"], r["hash"], rep.get("violation_class"), rep.get("event_log_hash")))
    if r["cls"] is not None:
        print("VIOLATION property=%s replay=%s" % (prop, path))
        return 1
    return 0


def grow_corpus(prop, exes, seed, iters):
    """coverage-guided corpus growth on each build; the union goes to build/corpus-<prop>.json and into every pool (VERIF_CORPUS)"""
    import subprocess
    allnew, info = [], []
    sd = core.scratch_dir()
    for exe in exes:
        out = os.path.join(sd, "grow.%d.json" % os.getpid())
        p = subprocess.run([exe, "grow", "--seed", str(seed), "--iters", str(iters), "--out", out], stdout=subprocess.PIPE, stderr=subprocess.PIPE, env=core.ENV, cwd=core.VERIF, timeout=1800)
        try:
            info.append(json.loads(p.stdout.decode("latin-1").strip().splitlines()[-1]))
            with open(out) as f:
                for a in json.load(f):
                    if a not in allnew:
                        allnew.append(a)
            os.unlink(out)
        except Exception as e:
            info.append({"exe": exe, "error": str(e)[:200], "rc": p.returncode})
    path = os.path.join(build.BUILD, "corpus-%s.json" % prop)
    with open(path, "w") as f:
        json.dump(allnew, f)
    core.ENV["VERIF_CORPUS"] = path
    return {"addresses_added_to_every_pool": len(allnew), "per_build": info}


def corpus_plans(exe):
    import subprocess
    try:
        p = subprocess.run([exe, "probe"], stdout=subprocess.PIPE, stderr=subprocess.PIPE, env=core.ENV, cwd=core.VERIF, timeout=300)
        return int(json.loads(p.stdout.decode("latin-1").strip().splitlines()[0])["corpus_plans"])
    except Exception:
        return 470


def handle_candidates(prop, batches, budget=300, limit=4):
    """-> (violations, known_lines, nondet_msgs)"""
    violations, known_lines, nondet = [], [], []
    seen_cls = {}
    for b in batches:
        unconfirmed = 0
        for c in b.candidates():
            if b.cfg == "tldsweep":
                # the sweep only proposes: the ordinary executor and oracle, in a fresh process, decide
                if unconfirmed >= 6 or not c.get("plan"):
                    continue
                r = exec_plans(b.exe, [c["plan"]])
                if r["cls"] != c["cls"]:
                    unconfirmed += 1
                    b.stats = b.stats or {}
                    b.stats["tld_sweep_candidates_not_confirmed"] = b.stats.get("tld_sweep_candidates_not_confirmed", 0) + 1
                    continue
            n = seen_cls.get(c["cls"], 0)
            seen_cls[c["cls"]] = n + 1
            if n >= 1 or len(seen_cls) > limit:
                continue        # one minimised witness per violation class
            st, payload = triage(prop, c, budget)
            if st == "nondeterministic":
                nondet.append(payload)
                continue
            k = core.match_known(prop, payload["cls"], payload["signature"])
            if k:
                known_lines.append("KNOWN-FINDING: property=%s %s" % (prop, k.get("what", payload["cls"])))
            else:
                violations.append(payload)
    return violations, known_lines, nondet


def conclude(prop, violations, known_lines, nondet, det):
    for l in sorted(set(known_lines)):
        print(l)
    for v in violations:
        print("violation class: %s" % v["cls"])
        print("  detail: %s" % v["detail"][:600])
        print("VIOLATION property=%s replay=%s" % (prop, v["replay"]))
    if violations:
        return 1
    if det and det.get("mismatches"):
        print("NONDETERMINISTIC: determinism self-test failed: %s" % det["mismatches"][:5])
        return 2
    if nondet:
        for m in nondet:
            print("NONDETERMINISTIC: " + m)
        return 2
    print("%s: no violation" % prop)
    return 0


# ------------------------------------------------------------------ C13
def c13(tier, seed):
    t0 = time.time()
    W = 8 if tier == "quick" else min(16, core.ncpu())
    exe, ext = build.build_hist("idn2")
    build_info = {"real_or_stub": REAL_STUB["idn2"], "library_externals": ext, "tree": build.tree_fingerprint()}
    build_info["corpus_growth"] = grow_corpus("C13", [exe], seed, 200000 if tier == "quick" else 3000000)
    det = determinism_selftest(exe, "C13", ["nofault", "fault"], seed, 160 if tier == "quick" else 2000, W, 3)
    # quick: a fixed amount of work (so that two runs of the same tree report the same coverage) under a generous time cap;
    # thorough: as much as the time allows
    secs = 90 if tier == "quick" else 240
    cnt = 12000 if tier == "quick" else 10**8
    batches = [Batch("nofault", exe, "C13", "nofault", seed, cnt, secs, W, samples=True, start=0).run(),
               Batch("fault", exe, "C13", "fault", seed, cnt, secs, W, samples=True, start=0).run()]
    # systematic small-scope part: every sequence of length <= 4 (quick) / 5 (thorough) over a 21-symbol alphabet
    small_n = 21 + 21**2 + 21**3 + 21**4 + (21**5 if tier == "thorough" else 0)
    small = Batch("small-scope", exe, "C13", "small", seed, small_n, 0, W).run()
    batches.append(small)
    # the other two copies of eav.c are part of C13's anchors: same histories on the adapter builds
    osecs = 60 if tier == "quick" else 90
    ocnt = 3000 if tier == "quick" else 10**8
    for bk in ("idn", "idnkit"):
        exe_b, _ = build.build_hist(bk)
        batches.append(Batch(bk + "-nofault", exe_b, "C13", "nofault", seed + 2, ocnt, osecs, W).run())
        batches.append(Batch(bk + "-fault", exe_b, "C13", "fault", seed + 2, ocnt, osecs, W).run())
    build_info["other_backends"] = REAL_STUB["idn"] + REAL_STUB["idnkit"]
    exe2, _ = build.build_hist("idn2", extra=True)
    build_info["extra_variant"] = "-DEAV_EXTRA build also run (lpart/domain strings compared and ledgered)"
    xq = tier == "quick"
    batches.append(Batch("extra-nofault", exe2, "C13", "nofault", seed + 1, 3000 if xq else 10**8, 60 if xq else 120, W, samples=False).run())
    batches.append(Batch("extra-fault", exe2, "C13", "fault", seed + 1, 3000 if xq else 10**8, 60 if xq else 120, W, samples=False).run())
    # the optional grammar flags compile other code into the scanners: same histories on that build
    exe3, _ = build.build_hist("idn2", flags=True)
    build_info["flags_variant"] = "build with -DRFC6531_FOLLOW_RFC5322 -DRFC6531_FOLLOW_RFC20 -DLABELS_ALLOW_UNDERSCORE also run"
    batches.append(Batch("flags-nofault", exe3, "C13", "nofault", seed + 4, 4000 if xq else 10**8, 60 if xq else 120, W, samples=False).run())
    # the release configuration: assert() compiled out (CFLAGS is the user's to set in both Makefiles)
    exe4, _ = build.build_hist("idn2", ndebug=True)
    build_info["ndebug_variant"] = "build with -DNDEBUG also run (no allocation faults there: the unchanged tree dereferences NULL)"
    batches.append(Batch("ndebug-nofault", exe4, "C13", "nofault", seed + 5, 3000 if xq else 10**8, 60 if xq else 120, W, samples=False).run())
    batches.append(Batch("ndebug-fault", exe4, "C13", "fault", seed + 5, 3000 if xq else 10**8, 60 if xq else 120, W, samples=False).run())
    exe6, _ = build.build_hist("idn2", debug=True)        # `make debug` configuration (-D_DEBUG)
    batches.append(Batch("debug-fault", exe6, "C13", "fault", seed + 8, 2000 if xq else 10**8, 60 if xq else 90, W, samples=False).run())
    # volume front end for abbreviated-key look-up caches: warm-up over the whole TLD table, then 20 000 unknown labels per plan,
    # on an optimised build without sanitizer; a discrepancy comes back as an ordinary history plan
    exe5, _ = build.build_hist("idn2", plain=True)
    batches.append(Batch("tldsweep", exe5, "C13", "tldsweep", seed + 6, 512 if xq else 10**8, 60 if xq else 240, W, samples=False).run())
    if tier == "thorough":
        # histories of more than 2^16 operations (16-bit counters, thresholds): few, long
        batches.append(Batch("nofault-long", exe, "C13", "nofault-long", seed + 7, 64, 300, W).run())
        batches.append(Batch("fault-long", exe, "C13", "fault-long", seed + 7, 64, 300, W).run())
    violations, known, nondet = handle_candidates("C13", batches)
    rule = ("plan = seeded history of 1-200 ops (one plan in 150: 260-760 ops; thorough also 65 600+ ops) {SET_RFC, SET_TLD, SET_ALLOW, SETUP, IS_EMAIL, ERRSTR, READ_RESULT, FREE_INIT} over 1-3 (one plan in 25: 4-8) eav_t "
            "objects and a per-plan address pool (swarm: op mix, pool size, caller-buffer mode, and - in fault batches - a per-plan 'world' in which a drawn share of the pool addresses never converts: fixed code and buffer behaviour per address), one address in five structurally mutated, plus the complete enumeration of all op sequences up to length 4 (thorough: 5) "
            "over a 21-symbol alphabet and a 6-address pool on one object; distinct = distinct hash of (ops, nobj); "
            "non-trivial = executed >=1 state-changing op AND >=1 reused-vs-fresh outcome comparison (AND >=1 fired IDN fault in fault batches)")
    assumptions = ["sampling, not proof: a clean batch is evidence only",
                   "fresh-object oracle: the reference outcome is the library's own answer on a fresh eav_t (differential, no independent e-mail grammar)",
                   "only public API and documented public fields are observed (idnmsg/utf8/initialized are private and not compared)",
                   "libidn2 honours its contract on the no-fault path"]
    extra = {"small_scope_enumeration": {"alphabet": "SET_RFC{0,1,2,3,99} SETUP SET_TLD{0,1} SET_ALLOW{0,all,generic-only} IS_EMAIL{6 addresses} ERRSTR FREE_INIT IS_EMAIL+fault{2}",
                                         "symbols": 21, "max_length": 5 if tier == "thorough" else 4, "plans_enumerated": small.done, "complete": small.done >= small_n}}
    finish("C13", tier, seed, t0, "exploration", batches, det, violations, known, nondet, extra, assumptions, rule, build_info)
    return conclude("C13", violations, known, nondet, det)


# ------------------------------------------------------------------ C19
def c19(tier, seed):
    t0 = time.time()
    W = 8 if tier == "quick" else min(16, core.ncpu())
    exe, ext = build.build_hist("idn2")
    build_info = {"real_or_stub": REAL_STUB["idn2"], "library_externals": ext, "tree": build.tree_fingerprint()}
    build_info["corpus_growth"] = grow_corpus("C19", [exe], seed, 200000 if tier == "quick" else 3000000)
    det = determinism_selftest(exe, "C19", ["single", "multi"], seed, 160 if tier == "quick" else 2000, W, 3)
    nbase = 2 if tier == "quick" else 40
    per_base = 50 * 30 * 2 * 3       # positions x codes x (first | second IDN-library call) x buffer modes
    secs = 90 if tier == "quick" else 300
    q = tier == "quick"
    batches = [Batch("nofault", exe, "C19", "nofault", seed, 4000 if q else 10**8, 60, W, samples=True).run(),
               Batch("single", exe, "C19", "single", seed, nbase * per_base, 0, W, samples=True).run(),
               Batch("multi", exe, "C19", "multi", seed, 8000 if q else 10**8, secs, W, samples=True).run()]
    exe2, _ = build.build_hist("idn2", extra=True)
    batches.append(Batch("extra-single", exe2, "C19", "single", seed + 1, (1 if q else 4) * per_base, 0, W).run())
    batches.append(Batch("extra-multi", exe2, "C19", "multi", seed + 1, 3000 if q else 10**8, 60, W).run())
    exe4, _ = build.build_hist("idn2", ndebug=True)      # release configuration: assert() compiled out
    build_info["ndebug_variant"] = "build with -DNDEBUG also run"
    batches.append(Batch("ndebug-single", exe4, "C19", "single", seed + 5, (1 if q else 4) * per_base, 0, W).run())
    batches.append(Batch("ndebug-multi", exe4, "C19", "multi", seed + 5, 3000 if q else 10**8, 60, W).run())
    exe6, _ = build.build_hist("idn2", debug=True)        # the Makefile's own `make debug` configuration (-D_DEBUG: trace code compiled in)
    build_info["debug_variant"] = "build with -D_DEBUG also run"
    batches.append(Batch("debug-multi", exe6, "C19", "multi", seed + 8, 3000 if q else 10**8, 60, W).run())
    violations, known, nondet = handle_candidates("C19", batches)
    single = batches[1]
    rule = ("plan = run of 1-50 validations in mode 6531 (eav_is_email, is_6531_email, is_utf8_domain; tld_check/allow/mode toggles in between) with "
            "IDN conversion faults attached to operations: 'single' = every (base sequence, position, code in 28 libidn2 codes + unknown negative + positive, "
            "buffer mode A/B/C) enumerated by index; 'multi' = seeded multi-fault sequences, fault rate 2-60%% per plan; 'nofault' = same workloads, no fault; "
            "distinct = distinct hash of (ops incl. attached faults); non-trivial = >=1 oracle comparison and, in fault batches, >=1 fault that actually fired")
    extra = {"single_fault_enumeration": {"base_sequences": nbase, "positions": 50, "codes": 30, "which_idn_call": 2, "buffer_modes": 3,
                                          "plans_enumerated": single.done, "faults_fired_in_enumeration": (single.stats or {}).get("idn_fault_fired", 0)},
             "exhaustive": False}
    assumptions = ["sampling for base sequences; single-fault positions x codes x buffer modes are enumerated completely per base sequence",
                   "allocation failure inside the real libidn2 is not injected (only its reported outcome IDN2_MALLOC is)",
                   "a backend returning success with a NULL buffer is outside the statement and not injected"]
    finish("C19", tier, seed, t0, "fault_enumeration", batches, det, violations, known, nondet, extra, assumptions, rule, build_info)
    return conclude("C19", violations, known, nondet, det)


# ------------------------------------------------------------------ C18
def lockstep_compare(prop, seed, cfg, exes, count, secs, W, start=0):
    """same plans in the three backends; compare neutral digests per index"""
    bs = {}
    for bk, exe in exes.items():
        bs[bk] = Batch("lockstep-%s-%s" % (cfg, bk), exe, prop, cfg, seed, count, secs, max(2, W // 3), samples=(bk == "idn2"), start=start)
    # run the three backends concurrently
    import threading
    th = [threading.Thread(target=b.run) for b in bs.values()]
    for t in th:
        t.start()
    for t in th:
        t.join()
    hs = {bk: b.hashes() for bk, b in bs.items()}
    common = set(hs["idn2"]) & set(hs["idn"]) & set(hs["idnkit"])
    mism = [i for i in sorted(common) if not (hs["idn2"][i][1] == hs["idn"][i][1] == hs["idnkit"][i][1])]
    return bs, len(common), mism


def lockstep_triage(prop, exes, plan, info, budget=200):
    def differs(q):
        res = {bk: exec_plans(exes[bk], [q]) for bk in exes}
        sig = set((r["cls"], tuple(r["neutral"])) for r in res.values())
        return len(sig) > 1
    if not differs(plan):
        return "nondeterministic", "backends disagree in batch but agree on fresh-process replay of index %s" % info.get("index")

    def test_ops(ops):
        q = dict(plan); q["ops"] = ops
        return differs(q)
    ops, tests = core.ddmin(plan["ops"], test_ops, budget)
    small = dict(plan); small["ops"] = ops
    if not (differs(small) and differs(small)):
        return "nondeterministic", "lock-step difference does not replay"
    res = {bk: exec_plans(exes[bk], [small], log=True) for bk in exes}
    # first backend-neutral record on which the three builds differ
    n = min(len(r["nlogs"]) for r in res.values())
    k = next((i for i in range(n) if len(set(r["nlogs"][i] for r in res.values())) > 1), None)
    if k is not None:
        detail = "first differing operation record #%d: " % k + "; ".join("%s: {%s}" % (bk, r["nlogs"][k]) for bk, r in res.items())
    else:
        detail = "; ".join("%s: %s records, class %s" % (bk, len(r["nlogs"]), r["cls"]) for bk, r in res.items())
    info = dict(info); info["shrink_tests"] = tests; info["ops_before"] = len(plan["ops"]); info["ops_after"] = len(ops)
    replay = {"property": prop, "engine": "hist-sim", "lockstep": True, "violation_class": "C18:backends-disagree",
              "detail": detail, "plans": [small], "found": info,
              "event_logs": {bk: r["logs"][-40:] for bk, r in res.items()}}
    path = core.save_replay(prop, "lockstep-%s" % info.get("index"), replay)
    sig = {"class": "C18:backends-disagree", "n_plans": 1, "n_ops": len(ops), "kinds": ",".join(o["k"] for o in ops)}
    return "violation", {"replay": path, "cls": "C18:backends-disagree", "detail": detail, "signature": sig, "plans": [small]}


def c18(tier, seed):
    t0 = time.time()
    W = 8 if tier == "quick" else min(16, core.ncpu())
    exes, exts = {}, {}
    for bk in ("idn2", "idn", "idnkit"):
        exes[bk], exts[bk] = build.build_hist(bk)
    build_info = {"real_or_stub": REAL_STUB["idn2"][:2] + REAL_STUB["idn"] + REAL_STUB["idnkit"],
                  "library_externals": exts, "tree": build.tree_fingerprint()}
    build_info["corpus_growth"] = grow_corpus("C18", [exes[bk] for bk in ("idn2", "idn", "idnkit")], seed, 150000 if tier == "quick" else 2000000)
    det = determinism_selftest(exes["idnkit"], "C18", ["lockstep-fault", "ctxfault"], seed, 120 if tier == "quick" else 1500, W, 3)
    secs = 90 if tier == "quick" else 240
    lcnt = 3000 if tier == "quick" else 10**8
    violations, known, nondet = [], [], []
    batches = []
    lock_info = {}
    for cfg in ("corpus", "small", "lockstep", "lockstep-fault"):
        if cfg == "corpus":
            bs, ncommon, mism = lockstep_compare("C18", seed, cfg, exes, corpus_plans(exes["idn2"]), 0, W)
        elif cfg == "small":    # every op sequence up to length 3 (thorough: 4) over the 21-symbol alphabet, in all three builds
            bs, ncommon, mism = lockstep_compare("C18", seed, cfg, exes, 21 + 21**2 + 21**3 + (21**4 if tier == "thorough" else 0), 0, W)
        else:
            bs, ncommon, mism = lockstep_compare("C18", seed, cfg, exes, lcnt, secs, W)
        batches += list(bs.values())
        lock_info[cfg] = {"plans_compared_across_three_backends": ncommon, "mismatching_plans": len(mism)}
        for i in mism[:2]:
            plan = gen_plan(exes["idn2"], "C18", cfg, seed, i)
            st, payload = lockstep_triage("C18", exes, plan, {"cfg": cfg, "seed": seed, "index": i})
            if st == "violation":
                k = core.match_known("C18", payload["cls"], payload["signature"])
                if k:
                    known.append("KNOWN-FINDING: property=C18 %s" % k.get("what", ""))
                else:
                    violations.append(payload)
            else:
                nondet.append(payload)
    # -DEAV_EXTRA builds of the two adapter-backed source sets: same histories, each with its own fresh-object oracle and ledgers
    # (the strndup'd lpart/domain strings exist only in this configuration)
    for bk in ("idn", "idnkit"):
        exe_x, _ = build.build_hist(bk, extra=True)
        batches.append(Batch("extra-" + bk, exe_x, "C18", "lockstep", seed + 6, 3000 if tier == "quick" else 10**8, 60, W).run())
    if tier == "thorough":
        # -DEAV_EXTRA builds of the three source sets in lock-step (lpart/domain strings are part of the records)
        exes_x = {}
        for bk in ("idn2", "idn", "idnkit"):
            exes_x[bk], _ = build.build_hist(bk, extra=True)
        for cfg in ("lockstep", "lockstep-fault"):
            bs, ncommon, mism = lockstep_compare("C18", seed + 5, cfg, exes_x, 10**8, 60, W)
            batches += list(bs.values())
            lock_info["extra-" + cfg] = {"plans_compared_across_three_backends": ncommon, "mismatching_plans": len(mism)}
            for i in mism[:2]:
                plan = gen_plan(exes_x["idn2"], "C18", cfg, seed + 5, i)
                st, payload = lockstep_triage("C18", exes_x, plan, {"cfg": cfg, "seed": seed + 5, "index": i, "variant": "extra"})
                (violations if st == "violation" else nondet).append(payload)
    # the optional grammar flags (LABELS_ALLOW_UNDERSCORE, RFC6531_FOLLOW_*) compile other code into all three source sets: lock-step there too
    exes_f = {}
    for bk in ("idn2", "idn", "idnkit"):
        exes_f[bk], _ = build.build_hist(bk, flags=True)
    for cfg in ("lockstep", "lockstep-fault"):
        bs, ncommon, mism = lockstep_compare("C18", seed + 11, cfg, exes_f, 2500 if tier == "quick" else 10**8, 60, W)
        batches += list(bs.values())
        lock_info["flags-" + cfg] = {"plans_compared_across_three_backends": ncommon, "mismatching_plans": len(mism)}
        for i in mism[:2]:
            plan = gen_plan(exes_f["idn2"], "C18", cfg, seed + 11, i)
            st, payload = lockstep_triage("C18", exes_f, plan, {"cfg": cfg, "seed": seed + 11, "index": i, "variant": "flags"})
            (violations if st == "violation" else nondet).append(payload)
    if tier == "thorough":
        # release configuration (-DNDEBUG) of the three source sets in lock-step
        exes_n = {}
        for bk in ("idn2", "idn", "idnkit"):
            exes_n[bk], _ = build.build_hist(bk, ndebug=True)
        for cfg in ("lockstep", "lockstep-fault"):
            bs, ncommon, mism = lockstep_compare("C18", seed + 9, cfg, exes_n, 10**8, 60, W)
            batches += list(bs.values())
            lock_info["ndebug-" + cfg] = {"plans_compared_across_three_backends": ncommon, "mismatching_plans": len(mism)}
            for i in mism[:2]:
                plan = gen_plan(exes_n["idn2"], "C18", cfg, seed + 9, i)
                st, payload = lockstep_triage("C18", exes_n, plan, {"cfg": cfg, "seed": seed + 9, "index": i, "variant": "ndebug"})
                (violations if st == "violation" else nondet).append(payload)
    # context ledger under backend-init faults: idnkit only
    ctxb = Batch("ctxfault-idnkit", exes["idnkit"], "C18", "ctxfault", seed, 8000 if tier == "quick" else 10**8, secs, W, samples=True).run()
    batches.append(ctxb)
    v2, k2, n2 = handle_candidates("C18", batches)
    violations += v2; known += k2; nondet += n2
    rule = ("plan = C13-style seeded history (1-200 ops, 1-3 objects) over IDN-heavy pools; 'lockstep'/'lockstep-fault' plans are executed by all three "
            "backend builds and their backend-neutral per-op records compared ('corpus' = deterministic sweep of every pool address - all lines of data/*.txt plus generated ones - "
            "in 4 modes x tld_check off/on through one reused object); 'ctxfault' plans run on the idnkit build with idn_resconf_initialize/"
            "idn_resconf_create failures attached to SETUP ops; every build also runs the fresh-object oracle and the allocation/context ledgers; "
            "distinct = distinct hash of (ops, nobj); non-trivial = >=1 state change and >=1 outcome comparison (and >=1 fired fault in fault batches)")
    extra = {"lockstep": lock_info}
    assumptions = ["libidn and idnkit are represented by adapter stubs over libidn2's conversion ('given equivalent IDN conversions'): nothing is claimed about the real libidn/idnkit",
                   "legal histories only: eav_init first, eav_is_email only after a successful eav_setup, eav_free followed only by eav_init",
                   "after a backend-init failure reported by eav_setup the object is treated as unconfirmed until the next successful eav_setup"]
    finish("C18", tier, seed, t0, "exploration", batches, det, violations, known, nondet, extra, assumptions, rule, build_info)
    return conclude("C18", violations, known, nondet, det)


def main(prop, tier, replay=None):
    seed = core.seed_from_env()
    if replay:
        return replay_mode(prop, replay)
    return {"C13": c13, "C19": c19, "C18": c18}[prop](tier, seed)

"""Batch driver shared by all checks: worker processes, result parsing, ddmin shrinking,
the replay gate, known findings and evidence files."""
import os, sys, subprocess, json, time, re, tempfile, array, shutil

VERIF = os.path.dirname(os.path.dirname(os.path.dirname(os.path.abspath(__file__))))
REPLAYS = os.path.join(VERIF, "replays")
EVIDENCE = os.path.join(VERIF, "evidence")
SCRATCH = os.path.join(VERIF, "build", "scratch")

ENV = dict(os.environ)
ENV["LC_ALL"] = "C"
ENV.pop("ASAN_OPTIONS", None)
ENV.pop("UBSAN_OPTIONS", None)


def seed_from_env():
    try:
        return int(os.environ.get("VERIF_SEED", "20261001"))
    except ValueError:
        return 20261001


def ncpu():
    try:
        return len(os.sched_getaffinity(0))
    except Exception:
        return os.cpu_count() or 4


def scratch_dir():
    os.makedirs(SCRATCH, exist_ok=True)
    return SCRATCH


SAN_RE = re.compile(r"ERROR: (AddressSanitizer|LeakSanitizer|UndefinedBehaviorSanitizer): ([A-Za-z0-9_\-]+(?: [a-z\-]+)*)")
UBSAN_RE = re.compile(r"runtime error: ([^\n]*)")
FRAME_RE = re.compile(r"#\d+ 0x[0-9a-f]+ in ([A-Za-z0-9_]+) (/[^\s:]+):(\d+)")


def classify_sanitizer(stderr_text):
    """-> (class, detail) from a sanitizer report, or None"""
    m = SAN_RE.search(stderr_text)
    kind = None
    if m:
        kind = m.group(2).strip().split(" on ")[0]
        kind = kind.replace(" ", "-")
        tool = "asan" if m.group(1) == "AddressSanitizer" else "ubsan"
    else:
        u = UBSAN_RE.search(stderr_text)
        if not u:
            return None
        tool = "ubsan"
        kind = re.sub(r"0x[0-9a-f]+", "ADDR", u.group(1))
        kind = re.sub(r"\d+", "N", kind)[:60].strip().replace(" ", "-")
    # first frame inside the repository sources
    site = ""
    for fm in FRAME_RE.finditer(stderr_text):
        path = fm.group(2)
        if "/repo/" in path or path.startswith(os.environ.get("VERIF_REPO", "/repo")):
            site = "%s@%s" % (fm.group(1), os.path.basename(path))
            break
    cls = "sanitizer:%s:%s" % (tool, kind)
    if site:
        cls += ":" + site
    lines = [l for l in stderr_text.splitlines() if l.strip()]
    head = " / ".join(lines[:3])[:300]
    return cls, head


class WorkerResult:
    def __init__(self):
        self.ok = {}          # index -> (local_hash, neutral_hash)
        self.viol = []        # dicts: index, cls, detail, plan(json or None), hash
        self.nondet = []      # indices whose in-process repeat differed
        self.twice_ok = 0
        self.stats = None
        self.done = 0
        self.samples = []
        self.order = []       # indices in execution order (for prefix replay)
        self.crashes = []     # dicts for sanitizer deaths
        self.rc = None


def parse_worker_output(text, res):
    inflight = None
    pending_v = None
    # protocol lines are whole "\n"-terminated lines of a fixed shape; anything else on stdout (a debug build of the library
    # prints raw address bytes, which may contain CR, NEL or other characters that str.splitlines() would split on) is ignored
    import re
    shapes = {"B": r"^B -?\d+$", "R": r"^R -?\d+ \S+ \S+ \S+$", "T": r"^T -?\d+$", "N": r"^N -?\d+ ", "V": r"^V -?\d+ \S+ .", "P": r"^P -?\d+ [\[{]",
              "S": r"^S \{", "D": r"^D \d+$"}
    for line in text.split("\n"):
        if not line:
            continue
        t = line[0]
        if t not in shapes or not re.match(shapes[t], line):
            continue
        try:
            json.loads(line.split(" ", 2)[2]) if t == "P" else (json.loads(line[2:]) if t == "S" else None)
        except Exception:
            continue
        if t == "B":
            inflight = int(line[2:])
            res.order.append(inflight)
        elif t == "R":
            parts = line.split()
            res.ok[int(parts[1])] = (parts[3], parts[4])
            inflight = None
        elif t == "T":
            res.twice_ok += 1
        elif t == "N":
            res.nondet.append(int(line.split()[1]))
        elif t == "V":
            parts = line.split(" ", 3)
            idx = int(parts[1]); h = parts[2]
            rest = parts[3]
            cls = rest.split(" | ")[0].strip()
            detail = rest[len(cls):].lstrip(" |")
            pending_v = {"index": idx, "cls": cls, "detail": detail, "hash": h, "plan": None}
            res.viol.append(pending_v)
            inflight = None
        elif t == "P":
            sp = line.split(" ", 2)
            idx = int(sp[1])
            plan = json.loads(sp[2])
            if pending_v is not None and pending_v["index"] == idx:
                pending_v["plan"] = plan
            else:
                res.samples.append(plan)
        elif t == "S":
            res.stats = json.loads(line[2:])
        elif t == "D":
            res.done = int(line[2:])
    return inflight


def run_workers(cmds, timeout):
    """cmds: list of argv lists; runs all concurrently, returns list of (rc, stdout, stderr)"""
    procs = []
    sd = scratch_dir()
    for i, c in enumerate(cmds):
        f1, n1 = tempfile.mkstemp(prefix="w.", suffix=".err", dir=sd)
        f2, n2 = tempfile.mkstemp(prefix="w.", suffix=".out", dir=sd)
        # bytes, decoded as latin-1: a debug build of the library prints raw address bytes to stdout between the protocol lines
        eo = os.fdopen(f1, "w+", encoding="latin-1", newline=""); oo = os.fdopen(f2, "w+", encoding="latin-1", newline="")
        procs.append((subprocess.Popen(c, stdout=oo, stderr=eo, env=ENV, cwd=VERIF), oo, eo, n2, n1))
    out = []
    deadline = time.time() + timeout
    for p, oo, eo, on, en in procs:
        try:
            p.wait(timeout=max(1, deadline - time.time()))
        except subprocess.TimeoutExpired:
            p.kill(); p.wait()
        oo.seek(0); eo.seek(0)
        out.append((p.returncode, oo.read(), eo.read()))
        oo.close(); eo.close()
        os.unlink(on); os.unlink(en)
    return out


def merge_stats(acc, s):
    if s is None:
        return acc
    if acc is None:
        return json.loads(json.dumps(s))
    for k, v in s.items():
        if k.startswith("max_") and isinstance(v, (int, float)):
            acc[k] = max(acc.get(k, 0), v)        # high-water marks, not counters
        elif isinstance(v, (int, float)) and not isinstance(v, bool):
            acc[k] = acc.get(k, 0) + v
        elif isinstance(v, dict):
            a = acc.setdefault(k, {})
            for kk, vv in v.items():
                a[kk] = a.get(kk, 0) + vv
        elif isinstance(v, list):
            acc[k] = sorted(set(acc.get(k, [])) | set(v))
        else:
            acc.setdefault(k, v)
    return acc


def read_hashes(path, all_set, nontrivial_set):
    try:
        a = array.array("Q")
        with open(path, "rb") as f:
            data = f.read()
        a.frombytes(data[: len(data) // 8 * 8])
        for v in a:
            if v & 1:
                nontrivial_set.add(v >> 1)
            else:
                all_set.add(v >> 1)
        os.unlink(path)
    except FileNotFoundError:
        pass


# ---------------------------------------------------------------- shrinking
SHRINK_WALL_S = 150        # per ddmin call: shrinking is best effort, a slow (e.g. 300-thread, livelocking) witness is kept as it is


def ddmin(items, test, budget=400, wall_s=None):
    """classic ddmin: smallest sublist of items for which test(sublist) is True.
    test(items) is assumed True.  Returns (sublist, tests_run)."""
    n = 2
    tests = 0
    items = list(items)
    t_end = time.time() + (wall_s if wall_s is not None else SHRINK_WALL_S)
    real_test = test

    def test(x):        # past the deadline every candidate is refused: the current best stands
        if time.time() > t_end:
            return False
        return real_test(x)
    while len(items) >= 2 and tests < budget and time.time() <= t_end:
        chunk = max(1, len(items) // n)
        subsets = [items[i:i + chunk] for i in range(0, len(items), chunk)]
        reduced = False
        # try complements first (removing one chunk), they shrink fastest on long plans
        for i in range(len(subsets)):
            comp = [x for j, s in enumerate(subsets) if j != i for x in s]
            if not comp:
                continue
            tests += 1
            if test(comp):
                items = comp
                n = max(n - 1, 2)
                reduced = True
                break
            if tests >= budget:
                break
        if not reduced and tests < budget:
            for s in subsets:
                if len(s) == len(items):
                    continue
                tests += 1
                if test(s):
                    items = s
                    n = 2
                    reduced = True
                    break
                if tests >= budget:
                    break
        if not reduced:
            if n >= len(items):
                break
            n = min(len(items), n * 2)
    if len(items) == 1 and tests < budget:
        pass
    return items, tests


# ---------------------------------------------------------------- known findings
def load_known():
    p = os.path.join(VERIF, "known_findings.json")
    try:
        with open(p) as f:
            return json.load(f)
    except FileNotFoundError:
        return {"findings": [], "fixed": []}


def match_known(prop, cls, signature):
    """signature: dict of identifying facts of a (minimised) violation"""
    for f in load_known().get("findings", []):
        if f.get("property") != prop:
            continue
        if f.get("class") and f["class"] != cls:
            continue
        m = f.get("match", {})
        if all(signature.get(k) == v for k, v in m.items()):
            return f
    return None


# ---------------------------------------------------------------- evidence
def write_evidence(prop, tier, seed, level, coverage, assumptions, wall_s, violations, extra=None):
    os.makedirs(EVIDENCE, exist_ok=True)
    ev = {"property_id": prop, "tier": tier, "seed": seed, "level": level, "coverage": coverage,
          "assumptions": assumptions, "wall_s": round(wall_s, 2), "violations": violations}
    if extra:
        ev.update(extra)
    tmp = os.path.join(EVIDENCE, prop + ".json.tmp")
    with open(tmp, "w") as f:
        json.dump(ev, f, indent=1, sort_keys=False)
        f.write("\n")
    os.replace(tmp, os.path.join(EVIDENCE, prop + ".json"))


def save_replay(prop, name, obj):
    os.makedirs(REPLAYS, exist_ok=True)
    path = os.path.join(REPLAYS, "%s-%s.json" % (prop, name))
    with open(path, "w") as f:
        json.dump(obj, f)
        f.write("\n")
    return path


def tier_from(argv_tier):
    t = argv_tier or os.environ.get("VERIF_TIER") or "quick"
    return "thorough" if t.startswith("t") else "quick"

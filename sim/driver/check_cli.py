"""C20: eav CLI in-process over a simulated file layer."""
import os, sys, json, time, copy
import build, core
import hist_checks
from hist_checks import Batch, triage, determinism_selftest, exec_plans
from check_hist import finish as _finish_unused, conclude, handle_candidates


def signature(plans, cls):
    ops = plans[-1]["ops"]
    lines = [o for o in ops if o["k"] == "LINE"]
    return {"class": cls, "n_plans": len(plans), "n_lines": len(lines)}


def fidelity_crosscheck(exe, seed, n):
    """Build the real `eav` with the repository's own Makefile in a scratch copy and compare its stdout with the
    in-process tool's stdout on the files of n generated fault-free plans."""
    import tempfile, shutil, subprocess, glob
    tmp = tempfile.mkdtemp(prefix="verif-c20-")
    rep = {"plans": 0, "invocations_compared": 0, "mismatches": [], "built": False}
    try:
        src = os.path.join(tmp, "repo")
        def ign(d, names):
            return [n for n in names if n == ".git" or n == "_build" or n.endswith((".o", ".so", ".a", ".bin"))
                    or (n in ("eav", "eav.static") and os.path.basename(d) == "bin")]
        shutil.copytree(build.REPO, src, ignore=ign)
        p = subprocess.run(["make", "-C", src, "-j4"], stdout=subprocess.PIPE, stderr=subprocess.STDOUT, text=True)
        real = os.path.join(src, "bin", "eav")
        if p.returncode != 0 or not os.path.exists(real):
            rep["error"] = "make failed: " + p.stdout[-400:]
            return rep
        rep["built"] = True
        env = dict(core.ENV); env["LD_LIBRARY_PATH"] = src
        for i in range(n):
            d = os.path.join(tmp, "p%d" % i); os.makedirs(d)
            q = subprocess.run([exe, "dump", "--cfg", "nofault", "--seed", str(seed), "--index", str(i), "--outdir", d],
                               stdout=subprocess.PIPE, stderr=subprocess.PIPE, env=core.ENV)
            if q.returncode != 0:
                continue
            rep["plans"] += 1
            k = 0
            while os.path.exists(os.path.join(d, "inv%d.out" % k)) or os.path.exists(os.path.join(d, "inv%d.skip" % k)):
                if os.path.exists(os.path.join(d, "inv%d.skip" % k)):
                    k += 1
                    continue
                files = sorted(glob.glob(os.path.join(d, "inv%d_f*.txt" % k)), key=lambda x: int(x.rsplit("_f", 1)[1][:-4]))
                r = subprocess.run([real] + files, stdout=subprocess.PIPE, stderr=subprocess.PIPE, env=env, timeout=60)
                want = open(os.path.join(d, "inv%d.out" % k), "rb").read()
                rep["invocations_compared"] += 1
                if r.returncode != 0 or r.stdout != want:
                    rep["mismatches"].append({"index": i, "invocation": k, "rc": r.returncode, "real_len": len(r.stdout), "sim_len": len(want)})
                k += 1
            shutil.rmtree(d)
    finally:
        shutil.rmtree(tmp, ignore_errors=True)
    return rep


def main(tier, replay=None):
    seed = core.seed_from_env()
    t0 = time.time()
    exe, ext = build.build_cli()
    locpath = build.build_locale()
    if locpath:
        core.ENV["VERIF_LOCPATH"] = locpath
    if replay:
        with open(replay) as f:
            rep = json.load(f)
        if rep.get("backend") == "cli-ndebug":
            exe, _ = build.build_cli(ndebug=True)
        r = exec_plans(exe, rep["plans"], log=True)
        for l in r["logs"]:
            print("  " + l)
        print("replay: class=%s detail=%s hash=%s (recorded class=%s hash=%s)" % (r["cls"], r["detail"], r["hash"], rep.get("violation_class"), rep.get("event_log_hash")))
        if r["cls"] is not None:
            print("VIOLATION property=C20 replay=%s" % replay)
            return 1
        return 0
    W = 8 if tier == "quick" else min(16, core.ncpu())
    det = determinism_selftest(exe, "C20", ["nofault", "iofault", "outfault"], seed, 80 if tier == "quick" else 1000, W, 3)
    q = tier == "quick"
    secs = 90 if q else 240
    batches = [Batch("nofault", exe, "C20", "nofault", seed, 12000 if q else 10**8, secs, W, samples=True).run(),
               Batch("iofault", exe, "C20", "iofault", seed, 12000 if q else 10**8, secs, W, samples=True).run(),
               Batch("outfault", exe, "C20", "outfault", seed, 6000 if q else 10**8, secs // 2, W, samples=True).run()]
    if not q:
        batches.append(Batch("nofault-longfile", exe, "C20", "nofault-longfile", seed + 2, 48, 300, W).run())
    # the release configuration: tool and library compiled with -DNDEBUG (both Makefiles take CFLAGS from the user)
    exe_nd, _ = build.build_cli(ndebug=True)
    batches.append(Batch("nofault-ndebug", exe_nd, "C20", "nofault", seed + 3, 3000 if q else 10**8, 60 if q else 120, W).run())
    batches.append(Batch("iofault-ndebug", exe_nd, "C20", "iofault", seed + 3, 2000 if q else 10**8, 60 if q else 120, W).run())
    violations, known, nondet = handle_candidates("C20", batches, budget=250)
    fidelity = fidelity_crosscheck(exe, seed, 15 if tier == "quick" else 400)
    if fidelity.get("mismatches"):
        nondet.append("fidelity cross-check: in-process stdout differs from the real bin/eav built by the repository Makefile: %s" % fidelity["mismatches"][:3])
    stats = None
    allh, nont = set(), set()
    done = 0; wall_sim = 0.0; per_batch = []; samples = []
    for b in batches:
        stats = core.merge_stats(stats, b.stats)
        allh |= b.all_hashes; nont |= b.nontrivial; done += b.done; wall_sim += b.wall
        per_batch.append({"batch": b.name, "cfg": b.cfg, "plans": b.done, "workers": b.workers, "wall_s": round(b.wall, 2),
                          "distinct_plans": len(b.all_hashes), "distinct_nontrivial": len(b.nontrivial)})
        for s in b.samples_list()[:1]:
            s = dict(s); s["ops"] = [dict(o, s=(o["s"][:80] + ("...(%d bytes)" % len(o["s"]) if len(o["s"]) > 80 else "")) if "s" in o else o) for o in s["ops"][:20]]
            samples.append(s)
    st = stats or {}
    wall = time.time() - t0
    cov = {
        "evaluations": done,
        "distinct_nontrivial": len(nont),
        "rule": ("plan = 1-3 invocations of eav_cli_main in one process, each over 1-3 simulated files of 0-40 lines drawn from shapes {empty, blank, blanks, #comment, ' #', "
                 "corpus address, leading/trailing blank, invalid UTF-8, control character, embedded CR, embedded NUL, multi-byte UTF-8, 0-8 KiB long lines around buffer sizes} x {LF, CRLF} "
                 "x final newline present/absent; per file a chunk schedule for the read callback (full, 1 byte, seeded sizes, boundaries forced inside CRLF / inside a UTF-8 sequence / at a line end) and, "
                 "in fault batches, an attached fault (fopen ENOENT/EACCES/EMFILE; read EINTR/EIO at an offset, transient or permanent; stdout short write/ENOSPC/EPIPE); "
                 "distinct = distinct hash of the op list; non-trivial = >=1 verdict compared with the library (and >=1 fault fired in fault batches)"),
        "samples": samples or [{"note": "no sample captured"}],
        "distinct_plans": len(allh),
        "simulated_runs_per_hour": int(done / wall_sim * 3600) if wall_sim > 0 else 0,
        "seeds_per_hour": int(done / wall_sim * 3600) if wall_sim > 0 else 0,
        "simulated_time": "none exists (the tool reads no clock); logical steps executed: %d" % st.get("steps", 0),
        "batches": per_batch,
        "determinism_selftest": det,
        "stats": {k: v for k, v in st.items() if k not in ("shape_chunk_fault_tuples",)},
        "distinct_shape_chunk_fault_tuples": len(st.get("shape_chunk_fault_tuples", [])),
        "fault_kinds": {"fopen_failure": {"attached": st.get("fault_fopen_attached", 0), "fired": st.get("fault_fopen_fired", 0)},
                        "read_EINTR": {"fired": st.get("fault_read_eintr_fired", 0)}, "read_EIO": {"fired": st.get("fault_read_eio_fired", 0)},
                        "read_fault_attached": st.get("fault_read_attached", 0),
                        "stdout_write_failure": {"attached": st.get("fault_stdout_attached", 0), "fired": st.get("fault_stdout_fired", 0)},
                        "short_reads_delivered": st.get("short_reads", 0)},
        "components": {"real_or_stub": ["bin/main.c, bin/main.h, bin/utf8_decode.c: real code compiled from /repo (-Dmain=eav_cli_main), ASan+UBSan",
                                        "libeav (idn2 backend): real code, linked without src/utf8_decode.c exactly as the shipped executable resolves those symbols",
                                        "glibc stdio (getline, fprintf, fopencookie): real", "files, read(2) chunking and errors, stdout/stderr: SIMULATED (fopencookie streams behind -Wl,--wrap=fopen)",
                                        "libidn2: real"],
                       "tool_externals": ext, "tree": build.tree_fingerprint()},
        "known_findings_reported": known, "nondeterministic_reports": nondet,
        "fidelity_crosscheck_real_binary": fidelity,
    }
    want_shapes = ["ascii", "utf8", "bad-utf8", "ctrl", "comment", "empty", "blank", "long>110", "long>1000", "long>2040"]
    have = set(x.split("/")[0].split("+")[0] for x in st.get("line_shapes", []))
    zero = ["line shape " + x for x in want_shapes if x not in have]
    for term in ("LF", "CRLF", "none"):
        if not any(x.endswith("/" + term) for x in st.get("line_shapes", [])):
            zero.append("terminator " + term)
    if not any("+nul" in x for x in st.get("line_shapes", [])):
        zero.append("line with embedded NUL")
    for k in ("fault_fopen_fired", "fault_read_eintr_fired", "fault_read_eio_fired", "fault_stdout_fired", "short_reads", "exact_echo_checked", "verdicts_checked"):
        if not st.get(k):
            zero.append(k)
    for k in ("full", "byte", "sized"):
        if not st.get("files_by_chunk_class", {}).get(k):
            zero.append("chunk class " + k)
    cov["probes_at_zero"] = zero
    assumptions = ["sampling, not proof", "after an injected read error only verdicts of lines that ended before the fault offset are required exactly (glibc hands a torn line to the tool as a line)",
                   "after an injected stdout error only termination, memory safety and exit status 0 are required",
                   "the verdict oracle is the library itself under default settings on a harness-owned eav_t (history independence is C13's business)",
                   "echo is compared byte-for-byte only for lines that are well-formed UTF-8 without control characters, as the property states"]
    core.write_evidence("C20", tier, seed, "exploration", cov, assumptions, wall, len(violations))
    return conclude("C20", violations, known, nondet, det)

"""C13, C18, C19: checks built on the history simulator (sim/hist)."""
import os, sys, json, time, subprocess, copy
import build, core
from core import VERIF, ENV

IDN_FAULT_CFGS = ("fault", "single", "multi", "lockstep-fault", "ctxfault")


# ------------------------------------------------------------------ exec helpers
def exec_plans(exe, plans, log=False, timeout=60):
    """Run a list of plans in ONE fresh process.  -> dict(rc, results=[...], first_bad, cls, detail, hash, logs)"""
    sd = core.scratch_dir()
    path = os.path.join(sd, "exec.%d.%d.json" % (os.getpid(), exec_plans.counter))
    exec_plans.counter += 1
    with open(path, "w") as f:
        json.dump({"plans": plans}, f)
    cmd = [exe, "exec", "--replay", path] + (["--log"] if log else [])
    try:
        p = subprocess.run(cmd, stdout=subprocess.PIPE, stderr=subprocess.PIPE, env=ENV, cwd=VERIF, timeout=timeout)
        rc, out, err = p.returncode, p.stdout.decode("latin-1"), p.stderr.decode("latin-1")
    except subprocess.TimeoutExpired:
        rc, out, err = -9, "", "timeout"
    os.unlink(path)
    r = {"rc": rc, "cls": None, "detail": "", "hash": None, "first_bad": None, "hashes": [], "neutral": [], "logs": [], "nlogs": [], "stderr": err}
    inflight = None
    import re
    for line in out.split("\n"):      # (not splitlines(): a debug build's raw trace bytes must not create pseudo-lines)
        if re.match(r"^B -?\d+$", line):
            inflight = int(line[2:])
        elif line.startswith("B "):
            continue
        elif line.startswith("R ") and not re.match(r"^R -?\d+ \S+ \S+ \S+$", line):
            continue
        elif line.startswith("V ") and not re.match(r"^V -?\d+ \S+ .", line):
            continue
        elif line.startswith("R "):
            parts = line.split()
            r["hashes"].append(parts[3]); r["neutral"].append(parts[4]); inflight = None
        elif line.startswith("V ") and r["cls"] is None:
            parts = line.split(" ", 3)
            rest = parts[3]
            r["cls"] = rest.split(" | ")[0].strip()
            r["detail"] = rest[len(r["cls"]):].lstrip(" |")
            r["hash"] = parts[2]
            r["first_bad"] = int(parts[1]); inflight = None
        elif line.startswith("L ") or line.startswith("M "):
            sp = line.split(" ", 2)
            key = "logs" if line[0] == "L" else "nlogs"
            try:
                r[key].append(json.loads(sp[2]))
            except Exception:
                r[key].append(sp[2])
    if r["cls"] is None and rc not in (0, 1):
        c = core.classify_sanitizer(err)
        if c:
            r["cls"], r["detail"] = c
        elif rc == -9:
            r["cls"], r["detail"] = "timeout", "replay did not finish"
        else:
            r["cls"], r["detail"] = "crash:rc=%d" % rc, err[-300:]
        r["first_bad"] = inflight
        r["hash"] = "dead"
    return r


exec_plans.counter = 0


def gen_plan(exe, prop, cfg, seed, index):
    p = subprocess.run([exe, "gen", "--prop", prop, "--cfg", cfg, "--seed", str(seed), "--index", str(index)],
                       stdout=subprocess.PIPE, stderr=subprocess.PIPE, env=ENV, cwd=VERIF, timeout=900)
    return json.loads(p.stdout.decode("latin-1"))


def simplify_plan(plan, test):
    """after ddmin on ops: fewer objects, no faults where not needed, shorter addresses"""
    tests = 0
    p = copy.deepcopy(plan)
    if p.get("nobj", 1) > 1:
        q = copy.deepcopy(p); q["nobj"] = 1
        for op in q["ops"]:
            op["o"] = 0
        tests += 1
        if test(q):
            p = q
    if "nthreads" in p:
        # C14: keep only threads that still have calls, numbered densely; then shrink the switch list
        # relay (objects travelling between live workers): needed at all?
        if any("x" in op for op in p["ops"]):
            q = copy.deepcopy(p)
            for op in q["ops"]:
                op.pop("x", None)
            tests += 1
            if test(q):
                p = q
        used = sorted(set(op.get("t", 0) for op in p["ops"]) | set(op["x"] for op in p["ops"] if "x" in op))
        if used and len(used) < p["nthreads"]:
            q = copy.deepcopy(p); m = {t: i for i, t in enumerate(used)}
            for op in q["ops"]:
                op["t"] = m[op.get("t", 0)]
                if "x" in op:
                    op["x"] = m[op["x"]]
            q["nthreads"] = max(1, len(used))
            q["switches"] = [[a, m[t], f] for a, t, f in [(x + [0])[:3] for x in q.get("switches", [])] if t in m]
            for k in ("main_init", "main_free"):
                if k in q:
                    q[k] = [m[t] for t in q[k] if t in m]
            tests += 1
            if test(q):
                p = q
        # object handoff: is it needed at all?  then call by call
        if any(op.get("ph") for op in p["ops"]) or p.get("main_init") or p.get("main_free"):
            q = copy.deepcopy(p); q.pop("main_init", None); q.pop("main_free", None)
            for op in q["ops"]:
                op.pop("ph", None)
            tests += 1
            if test(q):
                p = q
            else:
                for k in ("main_init", "main_free"):
                    if p.get(k):
                        q = copy.deepcopy(p); q.pop(k)
                        tests += 1
                        if test(q):
                            p = q
        if p.get("switches"):
            def test_sw(sw):
                q = dict(p); q["switches"] = sw
                return test(q)
            tests += 1
            if test_sw([]):
                p["switches"] = []
            else:
                sw, t = core.ddmin(p["switches"], test_sw, 120)
                p["switches"] = sw; tests += t
    # attached faults: C19 plans carry transient per-operation faults (dropped one by one); C13/C18 plans model a
    # deterministic converter, so a fault is dropped for every operation on the same address at once
    if p.get("prop") == "C19":
        for i in range(len(p["ops"])):
            if "f" in p["ops"][i]:
                q = copy.deepcopy(p); del q["ops"][i]["f"]
                tests += 1
                if test(q):
                    p = q
    else:
        for a in sorted(set(op.get("a") for op in p["ops"] if "f" in op)):
            q = copy.deepcopy(p)
            for op in q["ops"]:
                if op.get("a") == a and "f" in op:
                    del op["f"]
            tests += 1
            if test(q):
                p = q
    for i in range(len(p["ops"])):
        if "sf" in p["ops"][i]:
            q = copy.deepcopy(p); del q["ops"][i]["sf"]
            tests += 1
            if test(q):
                p = q
    return p, tests


def shrink_single(exe, plan, cls, budget=300):
    if os.environ.get("VERIF_FAST_TRIAGE"):      # regression runs over the archive only ask "is it caught": no minimisation
        return plan, 0
    def test_ops(ops):
        if _past_deadline():
            return False
        q = dict(plan); q["ops"] = ops
        r = exec_plans(exe, [q])
        return r["cls"] == cls
    ops, t1 = core.ddmin(plan["ops"], test_ops, budget)
    small = dict(plan); small["ops"] = ops

    def test_plan(q):
        if _past_deadline():
            return False
        return exec_plans(exe, [q])["cls"] == cls
    small, t2 = simplify_plan(small, test_plan)
    return small, t1 + t2


def shrink_sequence(exe, plans, cls, budget=300):
    """violation needs earlier plans executed in the same process"""
    if os.environ.get("VERIF_FAST_TRIAGE"):
        return plans, 0
    last = plans[-1]

    def test_prefix(pre):
        if _past_deadline():
            return False
        return exec_plans(exe, list(pre) + [last])["cls"] == cls
    pre, t1 = core.ddmin(plans[:-1], test_prefix, budget) if len(plans) > 1 else ([], 0)
    if pre and test_prefix([]):
        pre = []
    seq = list(pre) + [last]
    tests = t1
    for i in range(len(seq)):
        def test_ops(ops, i=i):
            if _past_deadline():
                return False
            s2 = copy.deepcopy(seq); s2[i]["ops"] = ops
            return exec_plans(exe, s2)["cls"] == cls
        if len(seq[i]["ops"]) > 1:
            ops, t = core.ddmin(seq[i]["ops"], test_ops, max(50, budget // len(seq)))
            seq[i]["ops"] = ops
            tests += t
    return seq, tests


def gate_and_report(prop, exe, plans, cls, detail, tag, info):
    """replay twice in fresh processes; both must give the same class and event-log hash"""
    r1 = exec_plans(exe, plans, log=True, timeout=900)      # (a livelocking 300-thread witness replays for minutes)
    r2 = exec_plans(exe, plans, timeout=900)
    if r1["cls"] != cls or r2["cls"] != cls or r1["hash"] != r2["hash"]:
        return None, "replay gate: classes %r/%r hashes %r/%r (wanted %r)" % (r1["cls"], r2["cls"], r1["hash"], r2["hash"], cls)
    replay = {"property": prop, "engine": "hist-sim", "backend": os.path.basename(os.path.dirname(exe)),
              "violation_class": cls, "detail": r1["detail"] or detail, "event_log_hash": r1["hash"],
              "plans": plans, "event_log": r1["logs"][-60:], "found": info}
    path = core.save_replay(prop, tag, replay)
    return path, None


def signature_of(plans, cls):
    ops = plans[-1]["ops"]
    kinds = [o["k"] for o in ops]
    sig = {"class": cls, "n_plans": len(plans), "n_ops": len(ops), "kinds": ",".join(kinds)}
    return sig


# ------------------------------------------------------------------ batches
class Batch:
    def __init__(self, name, exe, prop, cfg, seed, count, secs, workers, twice=False, samples=False, start=0, extra=None):
        self.extra = extra      # callable(worker index) -> extra argv
        self.name, self.exe, self.prop, self.cfg, self.seed = name, exe, prop, cfg, seed
        self.count, self.secs, self.workers, self.twice, self.samples, self.start = count, secs, workers, twice, samples, start
        self.results = []
        self.stats = None
        self.all_hashes, self.nontrivial = set(), set()
        self.done = 0
        self.wall = 0.0

    def run(self):
        W = self.workers
        per = (self.count + W - 1) // W
        cmds, hfiles = [], []
        sd = core.scratch_dir()
        for w in range(W):
            hf = os.path.join(sd, "hashes.%d.%s.%d.%d" % (os.getpid(), self.name, w, id(self)))
            hfiles.append(hf)
            c = [self.exe, "run", "--prop", self.prop, "--cfg", self.cfg, "--seed", str(self.seed), "--start", str(self.start + w),
                 "--stride", str(W), "--count", str(per), "--hashes-out", hf]
            if self.secs:
                c += ["--secs", str(self.secs)]
            if self.twice:
                c.append("--twice")
            if self.samples and w == 0:
                c.append("--samples")
            if self.extra:
                c += self.extra(w)
            cmds.append(c)
        t0 = time.time()
        outs = core.run_workers(cmds, timeout=(self.secs or 600) * 4 + 120)
        self.wall = time.time() - t0
        for w, (rc, out, err) in enumerate(outs):
            r = core.WorkerResult(); r.rc = rc
            inflight = core.parse_worker_output(out, r)
            if rc not in (0, 3) :
                c = core.classify_sanitizer(err)
                cls, detail = c if c else ("crash:rc=%s" % rc, err[-300:])
                r.crashes.append({"index": inflight, "cls": cls, "detail": detail, "plan": None, "hash": "dead"})
            self.results.append(r)
            self.stats = core.merge_stats(self.stats, r.stats)
            self.done += len(r.ok) + len(r.viol) + len(r.crashes)
            core.read_hashes(hfiles[w], self.all_hashes, self.nontrivial)
        return self

    def candidates(self):
        out = []
        for w, r in enumerate(self.results):
            for v in r.viol + r.crashes:
                v = dict(v); v["worker"] = w; v["batch"] = self
                out.append(v)
        return out

    def nondet(self):
        return [i for r in self.results for i in r.nondet]

    def hashes(self):
        h = {}
        for r in self.results:
            h.update(r.ok)
        return h

    def samples_list(self):
        return [s for r in self.results for s in r.samples]


TRIAGE_WALL_S = 480       # minimisation of one witness, all phases together: best effort; a witness whose every replay takes a minute stays big
_triage_deadline = [None]


def _past_deadline():
    return _triage_deadline[0] is not None and time.time() > _triage_deadline[0]


def triage(prop, cand, budget=300):
    _triage_deadline[0] = time.time() + TRIAGE_WALL_S
    try:
        return _triage(prop, cand, budget)
    finally:
        _triage_deadline[0] = None


def _triage(prop, cand, budget=300):
    """cand from Batch.candidates() -> (status, payload)
    status: 'violation' (payload: replay path, cls, detail, signature) | 'nondeterministic' (payload: text)"""
    b = cand["batch"]
    exe = b.exe
    idx = cand["index"]
    cls = cand["cls"]
    if idx is None:
        return "nondeterministic", "worker died (%s) with no plan in flight" % cls
    plan = cand.get("plan") or gen_plan(exe, b.prop, b.cfg, b.seed, idx)
    info = {"batch": b.name, "cfg": b.cfg, "seed": b.seed, "index": idx, "worker": cand["worker"], "workers": b.workers}
    r = exec_plans(exe, [plan], timeout=900)
    if r["cls"] == cls:
        small, tests = shrink_single(exe, plan, cls, budget)
        info["shrink_tests"] = tests; info["ops_before"] = len(plan["ops"]); info["ops_after"] = len(small["ops"])
        plans = [small]
    else:
        # needs the process history: replay everything this worker ran before it
        order = b.results[cand["worker"]].order
        upto = order[: order.index(idx) + 1] if idx in order else [idx]
        plans = [gen_plan(exe, b.prop, b.cfg, b.seed, i) for i in upto[-400:]]
        r = exec_plans(exe, plans, timeout=600)
        if r["cls"] != cls:
            return "nondeterministic", "violation %s at index %d reproduces neither alone (got %r) nor after the worker's history (got %r)" % (cls, idx, r["cls"], r["cls"])
        seq, tests = shrink_sequence(exe, plans, cls, budget)
        info["shrink_tests"] = tests; info["plans_before"] = len(plans); info["plans_after"] = len(seq)
        plans = seq
    path, err = gate_and_report(prop, exe, plans, cls, cand.get("detail", ""), "%s-%d" % (b.cfg, idx), info)
    if err:
        return "nondeterministic", err
    rr = exec_plans(exe, plans, timeout=900)
    return "violation", {"replay": path, "cls": cls, "detail": rr["detail"] or cand.get("detail", ""), "signature": signature_of(plans, cls), "plans": plans, "exe": exe}


def determinism_selftest(exe, prop, cfgs, seed, n, w1, w2):
    """each of n seeds per cfg: twice in-process (worker count w1), once more in other processes with w2 workers"""
    report = {"seeds": 0, "in_process_repeats_ok": 0, "cross_process_ok": 0, "mismatches": []}
    for cfg in cfgs:
        a = Batch("det1-" + cfg, exe, prop, cfg, seed, n, 0, w1, twice=True).run()
        b = Batch("det2-" + cfg, exe, prop, cfg, seed, n, 0, w2).run()
        ha, hb = a.hashes(), b.hashes()
        report["seeds"] += len(ha)
        report["in_process_repeats_ok"] += sum(r.twice_ok for r in a.results)
        for i in a.nondet():
            report["mismatches"].append({"cfg": cfg, "index": i, "kind": "in-process repeat"})
        for i, h in ha.items():
            if i in hb and hb[i] == h:
                report["cross_process_ok"] += 1
            elif i in hb:
                report["mismatches"].append({"cfg": cfg, "index": i, "kind": "cross-process"})
        report.setdefault("violations_seen", 0)
        report["violations_seen"] += len(a.candidates())
    return report

"""C14: real threads under a seeded serialising scheduler, happens-before race detector."""
import os, sys, json, time, copy, array, subprocess
import build, core
from hist_checks import Batch, triage, determinism_selftest, exec_plans
from check_hist import conclude, handle_candidates


def symbolize(exe, cls):
    """'C14:data-race:<pc>:<pc>' -> ' [src/is_tld.c:21 is_tld / ...]' using llvm-symbolizer on module-relative pcs"""
    parts = cls.split(":")
    if len(parts) != 4 or parts[1] != "data-race":
        return ""
    out = []
    for pc in parts[2:]:
        for tool in ("llvm-symbolizer-14", "llvm-symbolizer", "addr2line"):
            try:
                if tool == "addr2line":
                    r = subprocess.run([tool, "-f", "-e", exe, "0x" + pc], stdout=subprocess.PIPE, stderr=subprocess.DEVNULL, text=True, timeout=20)
                else:
                    r = subprocess.run([tool, "--obj=" + exe, "0x" + pc], stdout=subprocess.PIPE, stderr=subprocess.DEVNULL, text=True, timeout=20)
                lines = [l for l in r.stdout.splitlines() if l.strip()]
                if len(lines) >= 2:
                    fn, loc = lines[0], lines[1]
                    loc = loc.replace(build.REPO + "/", "")
                    out.append("%s (%s)" % (loc, fn))
                    break
            except Exception:
                continue
    return " [sites: " + " / ".join(out) + "]" if out else ""


FLAGS = ["-DRFC6531_FOLLOW_RFC5322", "-DRFC6531_FOLLOW_RFC20", "-DLABELS_ALLOW_UNDERSCORE"]
VARIANTS = {"-idn": ([], "idn"), "-idnkit": ([], "idnkit"), "-crowd": (["-DSIM_MAXT=321", "-DSIM_NCELL_LOG=14"], "idn2"), "-crowd2": (["-DSIM_MAXT=1025", "-DSIM_NCELL_LOG=12"], "idn2"),
            "-extra": (["-DEAV_EXTRA"], "idn2"), "-flags": (FLAGS, "idn2"), "-ndebug": (build.ALT_CONFIG, "idn2"), "-debug": (["-D_DEBUG"], "idn2")}


def main(tier, replay=None):
    seed = core.seed_from_env()
    t0 = time.time()
    exe, binfo = build.build_sched()
    if replay:
        with open(replay) as f:
            rep = json.load(f)
        variant = (rep.get("backend") or "sched")[len("sched"):]
        if variant in VARIANTS:     # found on another build of the same sources: replay on that build
            defs, bk = VARIANTS[variant]
            exe, _ = build.build_sched(variant, defs, backend=bk)
        r = exec_plans(exe, rep["plans"], log=True)
        for l in r["logs"]:
            print("  " + l)
        print("replay: class=%s detail=%s hash=%s (recorded class=%s hash=%s)" % (r["cls"], r["detail"], r["hash"], rep.get("violation_class"), rep.get("event_log_hash")))
        if r["cls"] is not None:
            print("VIOLATION property=C14 replay=%s" % replay)
            return 1
        return 0
    W = 8 if tier == "quick" else min(16, core.ncpu())
    ncpu = core.ncpu()
    sd = core.scratch_dir()
    ifiles = []

    def extra(tag):
        def f(w):
            p = os.path.join(sd, "il.%d.%s.%d" % (os.getpid(), tag, w))
            ifiles.append(p)
            return ["--cpu", str(w % ncpu), "--interleavings-out", p]
        return f
    det = determinism_selftest(exe, "C14", ["swarm"], seed, 400 if tier == "quick" else 4000, W, 3)
    q = tier == "quick"
    secs = 90 if q else 300
    batches = []
    for cfg, share, cnt in (("swarm", 1.0, 16000), ("pct", 0.5, 8000), ("random", 0.5, 8000)):
        batches.append(Batch(cfg, exe, "C14", cfg, seed, cnt if q else 10**8, max(2, int(secs * share)), W, samples=(cfg == "swarm"), extra=extra(cfg)).run())
    # small scope, complete: 12 pairs of one-validation programs x either thread first x every schedule with at most two
    # preemptions among the first 48 scheduling points (thorough: six laps over modes and call kinds)
    LAP = 12 * 2 * (1 + 48 + 48 * 47 // 2)
    sysb = Batch("systematic", exe, "C14", "systematic", seed, LAP if q else 6 * LAP, 0, W, extra=extra("systematic")).run()
    batches.append(sysb)
    # conflict-directed small scope: label pairs whose look-ups touch the same bytes of library static storage (none on the unchanged tree)
    batches.append(Batch("conflict", exe, "C14", "conflict", seed, 64 * 4 * 529 if not q else 40000, 90 if q else 240, W, extra=extra("conflict")).run())
    # narrow change counters (ABA): quick tries wraps after 2^8 replacements, thorough also after 2^16; nothing to do on the unchanged tree
    batches.append(Batch("aba", exe, "C14", "aba", seed, 8 * 16 * 2 * 3 * 2 * (1 if q else 2), 90 if q else 900, W, extra=extra("aba")).run())
    # the libidn and idnkit source sets over their adapters: their eav.c / is_utf8_domain.c / is_6531_email.c copies are library code too
    for bk in ("idn", "idnkit"):
        exe_b, _ = build.build_sched("-" + bk, [], backend=bk)
        batches.append(Batch("swarm-" + bk, exe_b, "C14", "swarm", seed + 4, 4000 if q else 10**8, 60 if q else 90, W, extra=extra("swarm-" + bk)).run())
    # "crowd": up to 320 threads (runtime built with a larger thread table and a smaller shadow table)
    exe_c, _ = build.build_sched("-crowd", ["-DSIM_MAXT=321", "-DSIM_NCELL_LOG=14"])
    batches.append(Batch("crowd", exe_c, "C14", "crowd", seed + 8, 160 if q else 10**8, 60 if q else 120, W, extra=extra("crowd")).run())
    # and up to 1024 threads (tables of 512 or 1000 per-thread slots): few plans, each costs about a second
    exe_c2, _ = build.build_sched("-crowd2", ["-DSIM_MAXT=1025", "-DSIM_NCELL_LOG=12"])
    batches.append(Batch("crowd2", exe_c2, "C14", "crowd", seed + 9, 24 if q else 10**8, 90 if q else 120, W, extra=extra("crowd2")).run())
    # the Makefile's own `make debug` configuration (-D_DEBUG: trace code compiled into the library)
    exe_d, _ = build.build_sched("-debug", ["-D_DEBUG"])
    batches.append(Batch("swarm-debug", exe_d, "C14", "swarm", seed + 12, 3000 if q else 10**8, 60 if q else 90, W, extra=extra("swarm-debug")).run())
    if tier == "thorough":
        # other build configurations of the same sources: EAV_EXTRA (strndup'd lpart/domain), and the optional grammar flags
        for vn, defs in (("-extra", ["-DEAV_EXTRA"]), ("-flags", FLAGS), ("-ndebug", build.ALT_CONFIG)):
            exe_v, _ = build.build_sched(vn, defs)
            batches.append(Batch("swarm" + vn, exe_v, "C14", "swarm", seed + 3, 10**8, 90, W, extra=extra("swarm" + vn)).run())
    violations, known, nondet = handle_candidates("C14", batches, budget=250)
    for v in violations:
        v["detail"] = v["detail"] + symbolize(v.get("exe", exe), v["cls"])
    inter = set()
    for p in ifiles:
        try:
            a = array.array("Q")
            with open(p, "rb") as f:
                d = f.read()
            a.frombytes(d[: len(d) // 8 * 8]); inter.update(a); os.unlink(p)
        except FileNotFoundError:
            pass
    stats = None; allh, nont = set(), set(); done = 0; wall_sim = 0.0; per_batch = []; samples = []
    for b in batches:
        stats = core.merge_stats(stats, b.stats)
        allh |= b.all_hashes; nont |= b.nontrivial; done += b.done; wall_sim += b.wall
        per_batch.append({"batch": b.name, "cfg": b.cfg, "plans": b.done, "workers": b.workers, "wall_s": round(b.wall, 2),
                          "distinct_plans": len(b.all_hashes), "distinct_nontrivial": len(b.nontrivial)})
        for s in b.samples_list()[:1]:
            s = dict(s); s["ops"] = s["ops"][:16]; s["switches"] = s.get("switches", [])[:24]
            samples.append(s)
    st = stats or {}
    wall = time.time() - t0
    cov = {
        "evaluations": done,
        "distinct_nontrivial": len(nont),
        "rule": ("plan = 2-16 thread programs (1-30 calls each: own eav_t set-up/validation/free + stateless validators on strings shared by pointer between all threads) "
                 "+ in one plan of four object handoff: leading calls of a program (or just eav_init) made by the main thread before the workers start, trailing calls and eav_free made by it after the join; in one plan of six relay: single calls of a program made by other live workers, the object handed on with release/acquire "
                 "+ a scheduling strategy drawn per plan (random switch p in {1/2..1/256}, PCT depth 1-4, round-robin quantum 1-17); the executed context-switch list is recorded and is what replays; "
                 "distinct = distinct (plan hash x interleaving hash over (thread, site) of every logged event); non-trivial = >=2 context switches and >=1 logged shared-memory-capable event"),
        "samples": samples or [{"note": "no sample captured"}],
        "distinct_plans": len(allh),
        "distinct_interleavings": len(inter),
        "interleaving_measure": "FNV hash of the sequence of (thread id, module-relative call site) over all logged events (instrumented accesses to writable non-stack memory, wrapped libc calls, allocator and sync events)",
        "simulated_runs_per_hour": int(done / wall_sim * 3600) if wall_sim > 0 else 0,
        "seeds_per_hour": int(done / wall_sim * 3600) if wall_sim > 0 else 0,
        "simulated_time": "none exists (no clock or timer in libeav); scheduling points executed: %d, context switches: %d" % (st.get("steps", 0), st.get("context_switches", 0)),
        "batches": per_batch,
        "determinism_selftest": det,
        "stats": st,
        "fault_kinds": {"preemption_at_every_logged_event": {"context_switches_executed": st.get("context_switches", 0)},
                        "note": "the injected 'fault' of this check is the adversarial schedule; allocation failures are attached to individual calls in one plan out of six (an abort inside the library is an outcome compared with the sequential run)",
                        "allocation_failure_attached_to_call": st.get("alloc_faults_attached", 0),
                        "object_handoff_between_main_and_worker": st.get("handoff_plans", 0),
                        "object_relay_between_live_workers": st.get("objects_handed_between_live_workers", 0)},
        "components": {"real_or_stub": ["libeav (src/*.c, partial/idn2/*.c): real code compiled with -fsanitize=thread instrumentation, linked against sim/sched/rt.cpp instead of libtsan",
                                        "threads: real pthreads, one runnable at a time (futex baton); the scheduler alone decides who runs",
                                        "libidn2: real, uninstrumented, executes atomically between two scheduling points",
                                        "libc string/memory/allocator/pthread_mutex/rwlock/once calls made by the library: wrapped (-Wl,--wrap), logged, real implementation (mutex/once are modelled)"],
                       "tree": build.tree_fingerprint()},
        "known_findings_reported": known, "nondeterministic_reports": nondet,
        "small_scope_schedule_enumeration": {"program_pairs": 12, "first_thread": 2, "scheduling_points_considered": 48, "max_preemptions": 2,
                                             "schedules_per_lap": LAP, "plans_enumerated": sysb.done, "complete": sysb.done >= (LAP if q else 6 * LAP)},
    }
    zero = []
    for k in ("random", "round_robin", "pct", "targeted"):
        if not st.get("plans_by_strategy", {}).get(k):
            zero.append("strategy " + k)
    for k in ("2", "3", "4", "8", "16"):
        if not st.get("plans_by_threads", {}).get(k):
            zero.append("%s threads" % k)
    for k, n in st.get("ops_by_kind", {}).items():
        if not n:
            zero.append("op kind " + k)
    if not st.get("context_switches"):
        zero.append("context switches")
    for k in ("relay_plans", "objects_handed_between_live_workers", "handoff_plans", "calls_by_main_before_start", "calls_by_main_after_join", "alloc_faults_attached"):
        if not st.get(k):
            zero.append(k)
    cov["probes_at_zero"] = zero
    cov["expected_zero_on_a_correct_tree"] = {"write_shared_locations": st.get("write_shared_locations", 0), "racing_pairs_seen": st.get("racing_pairs_seen", 0),
                                              "note": "libeav keeps no shared mutable state, so these are 0 on the unchanged tree; they become non-zero as soon as a change introduces any"}
    cov["components"].update(binfo)
    assumptions = ["sampling of schedules, not proof; the race oracle (vector-clock happens-before over instrumented accesses and modelled libc calls) does not depend on the schedule taken as long as both accesses execute",
                   "libidn2 internals are not instrumented: only libeav's use of it is observed",
                   "accesses to a thread's own stack frames (below the frame of its thread function) and to pages that are read-only at run time are not events; a thread's accesses to its own thread-local block are",
                   "every sequential reference run and every concurrent phase is a simulated process of its own: library statics reset to their link-time image, constructors run, a fresh OS thread as main thread; so first-use initialisation happens inside the simulation"]
    core.write_evidence("C14", tier, seed, "exploration", cov, assumptions, wall, len(violations))
    return conclude("C14", violations, known, nondet, det)

// Minimal JSON for plan / replay files.  Strings are *byte strings*: each byte is
// written as one code point (bytes >= 0x80 and controls as \u00XX), so arbitrary
// non-NUL (and NUL) bytes survive a round trip through Python's json module.
#pragma once
#include <string>
#include <vector>
#include <utility>
#include <cstdio>
#include <cstdlib>
#include <cstring>
#include <stdexcept>

namespace sj {

struct Value;
typedef std::vector<std::pair<std::string, Value>> Members;

struct Value {
    enum Kind { Null, Bool, Int, Str, Arr, Obj } kind = Null;
    long long i = 0;
    bool b = false;
    std::string s;
    std::vector<Value> a;
    Members o;

    Value() {}
    static Value integer(long long v) { Value x; x.kind = Int; x.i = v; return x; }
    static Value boolean(bool v) { Value x; x.kind = Bool; x.b = v; return x; }
    static Value str(const std::string &v) { Value x; x.kind = Str; x.s = v; return x; }
    static Value array() { Value x; x.kind = Arr; return x; }
    static Value object() { Value x; x.kind = Obj; return x; }

    Value &set(const std::string &k, const Value &v) {
        for (auto &m : o) if (m.first == k) { m.second = v; return *this; }
        o.emplace_back(k, v); return *this;
    }
    Value &set(const std::string &k, long long v) { return set(k, integer(v)); }
    Value &set(const std::string &k, int v) { return set(k, integer(v)); }
    Value &set(const std::string &k, unsigned long v) { return set(k, integer((long long)v)); }
    Value &set(const std::string &k, unsigned long long v) { return set(k, integer((long long)v)); }
    Value &set(const std::string &k, const std::string &v) { return set(k, str(v)); }
    Value &set(const std::string &k, const char *v) { return set(k, str(v)); }
    Value &push(const Value &v) { a.push_back(v); return *this; }

    const Value *get(const std::string &k) const {
        for (auto &m : o) if (m.first == k) return &m.second;
        return nullptr;
    }
    long long geti(const std::string &k, long long d = 0) const {
        const Value *v = get(k);
        if (!v) return d;
        if (v->kind == Int) return v->i;
        if (v->kind == Bool) return v->b;
        return d;
    }
    std::string gets(const std::string &k, const std::string &d = "") const {
        const Value *v = get(k); return (v && v->kind == Str) ? v->s : d;
    }
};

inline void dump_str(const std::string &s, std::string &out) {
    out += '"';
    for (unsigned char c : s) {
        if (c == '"') out += "\\\"";
        else if (c == '\\') out += "\\\\";
        else if (c < 0x20 || c >= 0x7f) { char b[8]; snprintf(b, sizeof b, "\\u%04x", c); out += b; }
        else out += (char)c;
    }
    out += '"';
}

inline void dump(const Value &v, std::string &out) {
    switch (v.kind) {
    case Value::Null: out += "null"; break;
    case Value::Bool: out += v.b ? "true" : "false"; break;
    case Value::Int: out += std::to_string(v.i); break;
    case Value::Str: dump_str(v.s, out); break;
    case Value::Arr:
        out += '[';
        for (size_t i = 0; i < v.a.size(); i++) { if (i) out += ','; dump(v.a[i], out); }
        out += ']'; break;
    case Value::Obj:
        out += '{';
        for (size_t i = 0; i < v.o.size(); i++) {
            if (i) out += ',';
            dump_str(v.o[i].first, out); out += ':'; dump(v.o[i].second, out);
        }
        out += '}'; break;
    }
}
inline std::string dump(const Value &v) { std::string s; dump(v, s); return s; }

struct Parser {
    const char *p, *e;
    Parser(const std::string &s) : p(s.data()), e(s.data() + s.size()) {}
    void ws() { while (p < e && (*p == ' ' || *p == '\n' || *p == '\t' || *p == '\r')) p++; }
    [[noreturn]] void fail(const char *m) { throw std::runtime_error(std::string("json: ") + m); }
    Value parse() {
        ws();
        if (p >= e) fail("eof");
        Value v;
        if (*p == '{') {
            v.kind = Value::Obj; p++; ws();
            if (p < e && *p == '}') { p++; return v; }
            for (;;) {
                ws(); if (p >= e || *p != '"') fail("key");
                std::string k = pstr(); ws();
                if (p >= e || *p != ':') fail("colon");
                p++;
                Value x = parse(); v.o.emplace_back(k, x); ws();
                if (p < e && *p == ',') { p++; continue; }
                if (p < e && *p == '}') { p++; break; }
                fail("obj");
            }
        } else if (*p == '[') {
            v.kind = Value::Arr; p++; ws();
            if (p < e && *p == ']') { p++; return v; }
            for (;;) {
                v.a.push_back(parse()); ws();
                if (p < e && *p == ',') { p++; continue; }
                if (p < e && *p == ']') { p++; break; }
                fail("arr");
            }
        } else if (*p == '"') {
            v.kind = Value::Str; v.s = pstr();
        } else if (!strncmp(p, "true", 4)) { v.kind = Value::Bool; v.b = true; p += 4; }
        else if (!strncmp(p, "false", 5)) { v.kind = Value::Bool; v.b = false; p += 5; }
        else if (!strncmp(p, "null", 4)) { p += 4; }
        else {
            char *q; v.kind = Value::Int; v.i = strtoll(p, &q, 10);
            if (q == p) fail("value");
            p = q;
            if (p < e && (*p == '.' || *p == 'e' || *p == 'E')) { // tolerate floats: truncate
                while (p < e && (strchr("+-.eE", *p) || (*p >= '0' && *p <= '9'))) p++;
            }
        }
        return v;
    }
    std::string pstr() {
        std::string s; p++;
        while (p < e && *p != '"') {
            if (*p == '\\') {
                p++; if (p >= e) fail("esc");
                switch (*p) {
                case 'n': s += '\n'; break; case 't': s += '\t'; break;
                case 'r': s += '\r'; break; case 'b': s += '\b'; break;
                case 'f': s += '\f'; break; case '/': s += '/'; break;
                case '\\': s += '\\'; break; case '"': s += '"'; break;
                case 'u': {
                    if (e - p < 5) fail("u");
                    char h[5] = { p[1], p[2], p[3], p[4], 0 };
                    unsigned cp = (unsigned)strtoul(h, nullptr, 16);
                    if (cp > 0xff) fail("code point > 0xff in byte string");
                    s += (char)cp; p += 4; break;
                }
                default: fail("esc2");
                }
                p++;
            } else {
                unsigned char c = (unsigned char)*p;
                if (c >= 0x80) {
                    // raw UTF-8 of a latin-1 code point (C2/C3 xx): decode back to one byte
                    if ((c == 0xC2 || c == 0xC3) && p + 1 < e) {
                        s += (char)(((c & 3) << 6) | (p[1] & 0x3f)); p += 2; continue;
                    }
                    fail("non-latin1 raw byte");
                }
                s += *p++;
            }
        }
        if (p >= e) fail("unterminated");
        p++;
        return s;
    }
};

inline Value parse(const std::string &s) { Parser ps(s); return ps.parse(); }

inline std::string read_file(const std::string &path) {
    FILE *f = fopen(path.c_str(), "rb");
    if (!f) throw std::runtime_error("cannot open " + path);
    std::string s; char buf[65536]; size_t n;
    while ((n = fread(buf, 1, sizeof buf, f)) > 0) s.append(buf, n);
    fclose(f);
    return s;
}

} // namespace sj

/* splitmix64-based PRNG: one integer decides everything.
 * Usable from C and C++.  No global state. */
#ifndef SIM_PRNG_H
#define SIM_PRNG_H
#include <stdint.h>
#include <stddef.h>

typedef struct { uint64_t s; } sim_rng;

static inline uint64_t sim_mix64(uint64_t z)
{
    z += 0x9e3779b97f4a7c15ULL;
    z = (z ^ (z >> 30)) * 0xbf58476d1ce4e5b9ULL;
    z = (z ^ (z >> 27)) * 0x94d049bb133111ebULL;
    return z ^ (z >> 31);
}

static inline uint64_t sim_next(sim_rng *r)
{
    uint64_t z = (r->s += 0x9e3779b97f4a7c15ULL);
    z = (z ^ (z >> 30)) * 0xbf58476d1ce4e5b9ULL;
    z = (z ^ (z >> 27)) * 0x94d049bb133111ebULL;
    return z ^ (z >> 31);
}

/* derive an independent stream from a seed and a purpose tag */
static inline sim_rng sim_derive(uint64_t seed, uint64_t tag)
{
    sim_rng r;
    r.s = sim_mix64(seed ^ sim_mix64(tag * 0x2545F4914F6CDD1DULL + 0x1234567ULL));
    return r;
}

/* uniform in [0,n) ; n>0 */
static inline uint64_t sim_below(sim_rng *r, uint64_t n)
{
    return n ? sim_next(r) % n : 0;
}

/* true with probability num/den */
static inline int sim_chance(sim_rng *r, uint64_t num, uint64_t den)
{
    return sim_below(r, den) < num;
}

static inline uint64_t sim_fnv1a(uint64_t h, const void *p, size_t n)
{
    const unsigned char *c = (const unsigned char *)p;
    for (size_t i = 0; i < n; i++) { h ^= c[i]; h *= 0x100000001b3ULL; }
    return h;
}
#define SIM_FNV_INIT 0xcbf29ce484222325ULL

#endif

// Seeded structural mutation of e-mail address strings, shared by the three simulators'
// workload generators.  The hand-made pools cover the shapes somebody thought of; this
// covers their neighbourhood: tokens that matter to the scanners (separators, quotes,
// brackets, IDN separators and signatures, invalid UTF-8, control bytes) inserted at
// random and at structural positions, and lengths padded to the limits the code mentions
// (64 local, 63 label, 253/254/255 domain, 1024).
#pragma once
#include <string>
#include <vector>
#include "prng.h"

namespace mut {

inline const std::vector<std::string> &tokens() {
    static const std::vector<std::string> T = {
        ".", "..", "@", "@@", "[", "]", "]x", "[IPv6:", "IPv6:", ":", "::", "\"", "\\", "\\\"", " ", "\t", "\r", "\x7f", "\x01", "\x1f",
        "-", "--", "_", "xn--", "XN--", "xn--p1ai", ".com", ".c", ".co", "com", "example", "localhost", "test", "invalid", "onion",
        "\xe3\x80\x82", "\xef\xbc\x8e", "\xef\xbd\xa1", "\xc2\xad", "\xe2\x80\x8d", "\xe2\x80\x8c", "\xef\xbb\xbf", "\xc2\xa0", "\xe2\x80\xa8",
        "\xef\xbd\x81", "\xcc\x81", "\xc3\x9f", "\xc4\xb0", "\xc5\xbf", "\xf0\x9f\x98\x80", "\xd0\xb8", "\xe4\xbe\x8b",
        "\xff", "\xc0\xaf", "\xed\xa0\x80", "\xf4\x90\x80\x80", "\x80", "\xc3",
        "0", "1", "255", "256", "0x1", "4294967296", "18446744073709551616", "99999999999999999999999", "1.2.3.4", "[1.2.3.4]", "[IPv6:::1]", "#", "(", ")", "<", ">", ",", ";", "+", "%", "!", "~",
    };
    return T;
}

inline std::string pad_to(sim_rng *r, const std::string &s, size_t lo, size_t hi, size_t want, char c) {
    // grow the segment [lo,hi) of s to exactly `want` bytes (or leave it if already longer)
    size_t len = hi - lo;
    if (len >= want) return s;
    std::string out = s;
    out.insert(lo + (len ? sim_below(r, len) : 0), std::string(want - len, c));
    return out;
}

// one or more mutations; never returns a string containing NUL
inline std::string mutate(sim_rng *r, const std::string &in) {
    std::string s = in;
    int n = 1 + (int)sim_below(r, 3);
    const auto &T = tokens();
    for (int k = 0; k < n; k++) {
        size_t at = s.rfind('@');
        size_t dom_lo = at == std::string::npos ? 0 : at + 1;
        unsigned op = (unsigned)sim_below(r, 19);
        switch (op) {
        case 0: case 1: case 2: {           // insert a token anywhere
            const std::string &t = T[sim_below(r, T.size())];
            s.insert(sim_below(r, s.size() + 1), t);
        } break;
        case 3: {                           // insert a token at a structural position
            const std::string &t = T[sim_below(r, T.size())];
            size_t pos[6] = { 0, s.size(), at == std::string::npos ? 0 : at, dom_lo, s.rfind('.') == std::string::npos ? s.size() : s.rfind('.'), s.rfind('.') == std::string::npos ? s.size() : s.rfind('.') + 1 };
            s.insert(pos[sim_below(r, 6)], t);
        } break;
        case 4: if (!s.empty()) {           // replace one byte by a token
            size_t p = sim_below(r, s.size()); s.replace(p, 1, T[sim_below(r, T.size())]);
        } break;
        case 5: if (s.size() > 1) {         // delete a range
            size_t p = sim_below(r, s.size()); size_t l = 1 + sim_below(r, std::min<size_t>(4, s.size() - p)); s.erase(p, l);
        } break;
        case 6: if (!s.empty()) {           // duplicate a segment
            size_t p = sim_below(r, s.size()); size_t l = 1 + sim_below(r, std::min<size_t>(12, s.size() - p)); s.insert(p, s.substr(p, l));
        } break;
        case 7: {                           // flip the case of a segment
            if (s.empty()) break;
            size_t p = sim_below(r, s.size()); size_t l = 1 + sim_below(r, s.size() - p);
            for (size_t i = p; i < p + l; i++) { char &c = s[i]; if (c >= 'a' && c <= 'z') c = (char)(c - 32); else if (c >= 'A' && c <= 'Z') c = (char)(c + 32); }
        } break;
        case 8: if (at != std::string::npos) {      // local part to 63/64/65 octets
            static const size_t W[] = { 63, 64, 65 }; s = pad_to(r, s, 0, at, W[sim_below(r, 3)], 'a');
        } break;
        case 9: {                           // last label / first domain label to 62..64 octets
            size_t ld = s.rfind('.'); size_t lo = (ld == std::string::npos || ld < dom_lo) ? dom_lo : ld + 1;
            if (sim_below(r, 2)) { size_t fd = s.find('.', dom_lo); s = pad_to(r, s, dom_lo, fd == std::string::npos ? s.size() : fd, 62 + sim_below(r, 3), 'b'); }
            else s = pad_to(r, s, lo, s.size(), 62 + sim_below(r, 3), 'c');
        } break;
        case 10: {                          // whole domain to 252..256 octets by adding labels
            static const size_t W[] = { 252, 253, 254, 255, 256 }; size_t want = W[sim_below(r, 5)];
            std::string d = s.substr(dom_lo);
            while (d.size() + 11 <= want) d = "abcdefghij." + d;
            if (d.size() < want) d = std::string(want - d.size() - (d.size() + 1 < want ? 1 : 0), 'x') + (d.size() + 1 < want ? "." : "") + d;
            s = s.substr(0, dom_lo) + d;
        } break;
        case 11: {                          // total length around 1024
            static const size_t W[] = { 1023, 1024, 1025, 1100 }; size_t want = W[sim_below(r, 4)];
            if (s.size() < want) s.insert(dom_lo, std::string(want - s.size(), 'z'));
        } break;
        case 12: if (sim_below(r, 3) == 0) {   // a run of code points that IDNA mapping deletes: huge spelling, short converted name
            static const char *ign[] = { "\xc2\xad", "\xef\xb8\x8f", "\xe2\x81\xa0" };
            const char *g = ign[sim_below(r, 3)]; size_t reps = 40 + sim_below(r, 700); std::string run; for (size_t i = 0; i < reps; i++) run += g;
            s.insert(dom_lo + (s.size() > dom_lo ? sim_below(r, s.size() - dom_lo) : 0), run);
        } else s += T[sim_below(r, T.size())]; break;                 // append
        case 13: s = T[sim_below(r, T.size())] + s; break;              // prepend
        case 14: if (at != std::string::npos) s += ".";  break;        // rooted
        case 17: {                          // bit 5 of a few bytes flipped: for letters the other case, for everything else a different byte
            int k = 1 + (int)sim_below(r, 3);   // that a sloppy "case-insensitive" comparison takes for the same ('.' / 0x0e, '-' / CR, digits / 0x10-0x19)
            for (int i = 0; i < k && s.size() > dom_lo; i++) { size_t p = dom_lo + sim_below(r, s.size() - dom_lo); s[p] = (char)(s[p] ^ 0x20); }
        } break;
        case 16: {                          // one label repeated many times (names of very many short labels)
            std::vector<size_t> cuts; cuts.push_back(dom_lo); for (size_t i = dom_lo; i < s.size(); i++) if (s[i] == '.') cuts.push_back(i + 1);
            size_t k = sim_below(r, cuts.size()); size_t lo = cuts[k], hi = k + 1 < cuts.size() ? cuts[k + 1] - 1 : s.size();
            std::string lab = s.substr(lo, hi - lo); if (lab.empty() || lab.size() > 20) lab = "\xd1\x8f";
            size_t reps = 2 + sim_below(r, 40); std::string run; for (size_t i = 0; i < reps; i++) { run += lab; run += "."; }
            s.insert(lo, run);
        } break;
        case 15: {                          // one label, or the whole domain, replaced by code points that IDNA mapping deletes
            static const char *ign[] = { "\xc2\xad", "\xe2\x80\x8b", "\xef\xb8\x8f", "\xe2\x81\xa0" };
            std::string g; int reps = 1 + (int)sim_below(r, 3); for (int i = 0; i < reps; i++) g += ign[sim_below(r, 4)];
            if (sim_below(r, 2) || s.find('.', dom_lo) == std::string::npos) s = s.substr(0, dom_lo) + g;
            else {
                std::vector<size_t> cuts; cuts.push_back(dom_lo); for (size_t i = dom_lo; i < s.size(); i++) if (s[i] == '.') cuts.push_back(i + 1);
                size_t k = sim_below(r, cuts.size()); size_t lo = cuts[k], hi = k + 1 < cuts.size() ? cuts[k + 1] - 1 : s.size();
                s.replace(lo, hi - lo, g);
            }
        } break;
        default: if (at != std::string::npos && sim_below(r, 2)) s = s.substr(dom_lo) + "@" + s.substr(0, at); break;   // swap halves
        }
        if (s.size() > 70000) s.resize(70000);
    }
    for (auto &c : s) if (c == '\0') c = '0';
    return s;
}

} // namespace mut

// C14 simulator: real pthreads running libeav (compiled with -fsanitize=thread, linked
// against rt.cpp instead of libtsan) under a seeded serialising scheduler.
//
//   sched gen  --cfg C --seed S --index I
//   sched run  --cfg C --seed S --start A --stride W --count N [--twice] [--secs T] [--samples] [--cpu K]
//   sched exec --replay FILE [--log]
#include <cstdio>
#include <cstdlib>
#include <cstring>
#include <string>
#include <functional>
#include <vector>
#include <map>
#include <set>
#include <chrono>
#include <algorithm>
#include <sched.h>
#include <unistd.h>
#include "../core/prng.h"
#include "../core/json.hpp"
#include "../core/mutate.hpp"
#include "rt.hpp"

extern "C" {
#include <eav.h>
#include <eav/auto_tld.h>
}
#ifdef HAVE_IDNKIT
extern "C" { void sim_ctx_reset(void); extern int g_sim_nreports; extern char g_sim_report_cls[8][64]; extern char g_sim_report_detail[8][160]; }
#endif
namespace rt { void name_range(const void *p, size_t n, const std::string &name); void clear_named(); const char *set_process_locale(const char *name); }

using std::string;
using std::vector;

enum Kind { SET_RFC, SET_TLD, SET_ALLOW, SETUP, IS_EMAIL, ERRSTR, FREE_INIT, EXIT, LOCAL, ADOM, UDOM, IP4, IP6, IPADDR, TLD, SPECIAL, EMAIL, NKINDS };
static const char *KNAME[NKINDS] = { "SET_RFC", "SET_TLD", "SET_ALLOW", "SETUP", "IS_EMAIL", "ERRSTR", "FREE_INIT", "EXIT", "LOCAL", "ADOM", "UDOM", "IP4", "IP6", "IPADDR", "TLD", "SPECIAL", "EMAIL" };

struct Op { int t = 0; Kind k = SETUP; long long v = 0; string a; int mf = 0; /* allocation fault: the mf-th malloc of this call returns NULL */
            int x = -1; /* relay: the simulated thread that makes this call (default: thread t); program t's object travels from thread to thread, each handing it on when its call is complete */
            int ph = 0; /* handoff: 1 = a leading call of thread t's program made by the main thread before t starts, 2 = a trailing call made by the main thread after t was joined */ };
struct Plan {
    string cfg = "random"; uint64_t seed = 0; long long index = -1; int nthreads = 2;
    string locale = "C";        // process locale during the run (the library must not depend on it, nor change it)
    vector<Op> ops;
    int policy = 1; uint64_t den = 16, quantum = 2, sched_seed = 1; int depth = 2;
    vector<rt::Switch> switches; bool has_switches = false;
    vector<rt::ScriptStep> script;      // scheduling script (policy 5): see rt.hpp
    int sig = 0;                // signal environment: percent of blocking sem_wait() calls interrupted (EINTR); 0 = the application handles no signals
    vector<int> main_init, main_free;   // object handoff: threads whose eav_t is initialised by the main thread before they start / freed by it after the join
};

static sj::Value plan_to_json(const Plan &p) {
    sj::Value j = sj::Value::object();
    j.set("prop", "C14"); j.set("cfg", p.cfg); j.set("seed", (long long)p.seed); j.set("index", p.index); j.set("nthreads", p.nthreads); j.set("locale", p.locale);
    sj::Value s = sj::Value::object(); s.set("policy", p.policy); s.set("den", (long long)p.den); s.set("quantum", (long long)p.quantum); s.set("depth", p.depth); s.set("seed", (long long)p.sched_seed); if (p.sig) s.set("sig", p.sig);
    j.set("sched", s);
    sj::Value a = sj::Value::array();
    for (auto &op : p.ops) {
        sj::Value o = sj::Value::object(); o.set("t", op.t); o.set("k", KNAME[op.k]);
        if (op.k == SET_RFC || op.k == SET_TLD || op.k == SET_ALLOW || op.k == LOCAL || op.k == UDOM || op.k == EMAIL) o.set("v", op.v);
        if (op.k == IS_EMAIL || op.k >= LOCAL) o.set("a", op.a);
        if (op.mf) o.set("mf", op.mf);
        if (op.ph) o.set("ph", op.ph);
        if (op.x >= 0 && op.x != op.t) o.set("x", op.x);
        a.push(o);
    }
    j.set("ops", a);
    if (!p.main_init.empty()) { sj::Value m = sj::Value::array(); for (int t : p.main_init) m.push(sj::Value::integer(t)); j.set("main_init", m); }
    if (!p.main_free.empty()) { sj::Value m = sj::Value::array(); for (int t : p.main_free) m.push(sj::Value::integer(t)); j.set("main_free", m); }
    if (!p.script.empty()) { sj::Value sc = sj::Value::array(); for (auto &x : p.script) { sj::Value e = sj::Value::array(); e.push(sj::Value::integer(x.tid)); e.push(sj::Value::integer(x.kind)); e.push(sj::Value::integer((long long)x.n)); sc.push(e); } j.set("script", sc); }
    if (p.has_switches) {
        sj::Value sw = sj::Value::array();
        for (auto &x : p.switches) { sj::Value e = sj::Value::array(); e.push(sj::Value::integer((long long)x.at)); e.push(sj::Value::integer(x.to)); e.push(sj::Value::integer(x.forced)); sw.push(e); }
        j.set("switches", sw);
    }
    return j;
}
static Plan plan_from_json(const sj::Value &j) {
    Plan p; p.cfg = j.gets("cfg", "random"); p.seed = (uint64_t)j.geti("seed"); p.index = j.geti("index", -1); p.nthreads = (int)j.geti("nthreads", 2); p.locale = j.gets("locale", "C");
    if (p.nthreads < 1) p.nthreads = 1;
    if (p.nthreads > rt::MAXT - 1) p.nthreads = rt::MAXT - 1;
    const sj::Value *s = j.get("sched");
    if (s) { p.policy = (int)s->geti("policy", 1); p.den = (uint64_t)s->geti("den", 16); p.quantum = (uint64_t)s->geti("quantum", 2); p.depth = (int)s->geti("depth", 2); p.sched_seed = (uint64_t)s->geti("seed", 1); p.sig = (int)s->geti("sig", 0); if (p.sig < 0) p.sig = 0; if (p.sig > 100) p.sig = 100; }
    if (p.den < 1) p.den = 1;
    const sj::Value *ops = j.get("ops");
    if (ops) for (auto &e : ops->a) {
        Op op; string k = e.gets("k"); int ki = -1;
        for (int i = 0; i < NKINDS; i++) if (k == KNAME[i]) ki = i;
        if (ki < 0) continue;
        op.k = (Kind)ki; op.t = (int)e.geti("t"); op.v = e.geti("v"); op.a = e.gets("a"); op.mf = (int)e.geti("mf"); op.ph = (int)e.geti("ph"); op.x = (int)e.geti("x", -1);
        if (op.t < 0) op.t = 0;
        op.t %= p.nthreads;
        if (op.x >= 0) op.x %= p.nthreads;
        if (op.a.find('\0') != string::npos) op.a = op.a.substr(0, op.a.find('\0'));
#ifdef NDEBUG
        op.mf = 0;      // release build: a failed allocation is a NULL dereference on the unchanged tree, not an observable outcome
#endif
        p.ops.push_back(op);
    }
    for (const char *nm : { "main_init", "main_free" }) { const sj::Value *m = j.get(nm); if (m && m->kind == sj::Value::Arr) for (auto &e : m->a) { int t = (int)e.i; if (t >= 0 && t < p.nthreads) (nm[5] == 'i' ? p.main_init : p.main_free).push_back(t); } }
    { const sj::Value *sc = j.get("script"); if (sc && sc->kind == sj::Value::Arr) for (auto &e : sc->a) if (e.kind == sj::Value::Arr && e.a.size() >= 3) p.script.push_back(rt::ScriptStep{ (int)e.a[0].i % p.nthreads, (int)e.a[1].i, (uint64_t)e.a[2].i }); }
    const sj::Value *sw = j.get("switches");
    if (sw && sw->kind == sj::Value::Arr) {
        p.has_switches = true;
        for (auto &e : sw->a) if (e.kind == sj::Value::Arr && e.a.size() >= 2) p.switches.push_back(rt::Switch{ (uint64_t)e.a[0].i, (int)e.a[1].i, e.a.size() > 2 ? (int)e.a[2].i : 0 });
    }
    return p;
}

// ------------------------------------------------------------------ thread programs
struct Shared {
    const Plan *plan = nullptr;
    std::map<string, char *> strings;           // interned: same pointer for every thread
    vector<void *> objs;                        // one eav_t per thread (heap, owned by that thread)
    vector<vector<string>> out;                 // outcome log per thread
    // per thread: its ops in order, which of them the main thread runs before the start [0,a) / after the join [b,n), who
    // initialises and frees the object, and the state carried from one segment to the next
    vector<vector<const Op *>> prog; vector<size_t> a, b; vector<char> init_by_main, free_by_main, stopped; vector<int> confirmed;
    size_t exit_handlers_run = 0;
    string dangling;                            // the main thread found an object pointing into a finished thread's memory
    void layout() {
        const Plan &p = *plan; int n = p.nthreads;
        prog.assign(n, {}); a.assign(n, 0); b.assign(n, 0); init_by_main.assign(n, 0); free_by_main.assign(n, 0);
        for (auto &op : p.ops) prog[op.t].push_back(&op);
        for (int t = 0; t < n; t++) {
            size_t m = prog[t].size(), i = 0, j = m;
            while (i < m && prog[t][i]->ph == 1) i++;
            while (j > i && prog[t][j - 1]->ph == 2) j--;
            a[t] = i; b[t] = j;
            init_by_main[t] = i > 0; free_by_main[t] = j < m;
        }
        for (int t : p.main_init) init_by_main[t] = 1;
        for (int t : p.main_free) free_by_main[t] = 1;
        build_items();
    }
    // concurrent phase: what the workers do, in plan order.  An item is eav_init of a program's object, one of its calls,
    // or eav_free; it is executed by thread `exec` once the previous item of the same program is complete.
    struct Item { int prog; int kind; size_t oi; int exec; long pred; bool needs_post; };
    vector<Item> items; vector<vector<size_t>> byexec; vector<size_t> cursor; vector<char> inflight; vector<int> cur_prog;
    bool in_concurrent = false, relay = false, exited = false;
    void build_items() {
        const Plan &p = *plan; int n = p.nthreads;
        items.clear(); byexec.assign(n, {});
        vector<long> last(n, -1); vector<size_t> pos(n, 0);
        auto add = [&](int prog, int kind, size_t oi, int exec) {
            Item it{ prog, kind, oi, exec, last[prog], false };
            if (it.pred >= 0 && items[(size_t)it.pred].exec != exec) { items[(size_t)it.pred].needs_post = true; relay = true; }
            last[prog] = (long)items.size(); items.push_back(it);
        };
        for (int t = 0; t < n; t++) if (a[t] == b[t]) {     // nothing for a worker to call: it still creates / destroys what the main thread does not
            if (!init_by_main[t]) add(t, 0, a[t], t);
            if (!free_by_main[t]) add(t, 2, a[t], t);
        }
        for (auto &op : p.ops) {
            int t = op.t; size_t oi = pos[t]++;
            if (oi < a[t] || oi >= b[t]) continue;
            int x = op.x >= 0 ? op.x : t;
            if (oi == a[t] && !init_by_main[t]) add(t, 0, oi, x);
            add(t, 1, oi, x);
            if (oi + 1 == b[t] && !free_by_main[t]) add(t, 2, oi, x);
        }
        for (size_t i = 0; i < items.size(); i++) byexec[items[i].exec].push_back(i);
    }
    void fresh_state() { int n = plan->nthreads; stopped.assign(n, 0); confirmed.assign(n, -1); dangling.clear(); exited = false; cursor.assign(n, 0); inflight.assign(n, 0); cur_prog.assign(n, -1); }
};

static string res_str(eav_result_t *r) {
    char b[160];
    if (!r) return "res=null";
    snprintf(b, sizeof b, "res v4=%d v6=%d dom=%d rc=%d idn_rc=%d", (int)r->is_ipv4, (int)r->is_ipv6, (int)r->is_domain, r->rc, (int)r->idn_rc);
#ifdef EAV_EXTRA
    return string(b) + " lpart=" + (r->lpart ? r->lpart : "(null)") + " domain=" + (r->domain ? r->domain : "(null)");
#else
    return b;
#endif
}

// calls [lo,hi) of thread tid's program, on whichever thread calls this; by_main_after: the main thread continues with an
// object that a joined thread used last
static void run_segment(int tid, Shared *sh, size_t lo, size_t hi, bool do_init, bool do_free, bool concurrent, bool by_main_after = false) {
    (void)concurrent;
    eav_t *e = (eav_t *)sh->objs[tid];
    vector<string> &out = sh->out[tid];
    int &confirmed = sh->confirmed[tid];
    if (sh->stopped[tid]) return;
    if (do_init) { rt::enter_sut(); eav_init(e); rt::leave_sut(); }
    char b[256];
    if (by_main_after && e->result) {
        int o = rt::finished_thread_owning(e->result);
        if (o >= 0) { sh->dangling = "after joining thread " + std::to_string(o) + " its eav_t still points (result) into that thread's stack / thread-local storage"; sh->stopped[tid] = 1; return; }
    }
    for (size_t oi = lo; oi < hi; oi++) {
        const Op &op = *sh->prog[tid][oi];
        const char *s = nullptr; size_t n = 0; const char *at = nullptr, *dom = nullptr, *end = nullptr;
        if (op.k == IS_EMAIL || op.k >= LOCAL) {
            s = sh->strings[op.a]; n = op.a.size(); end = s + n;
            at = nullptr; for (const char *q = s; q < end; q++) if (*q == '@') at = q;
            dom = at ? at + 1 : s;
        }
        rt::arm_alloc_fault(op.mf);
        switch (op.k) {
        case SET_RFC: e->rfc = (EAV_RFC)(int)op.v; break;
        case SET_TLD: e->tld_check = op.v ? true : false; break;
        case SET_ALLOW: e->allow_tld = (int)op.v; break;
        case SETUP: {
            rt::enter_sut(); int r = eav_setup(e); rt::leave_sut();
            if (r == 0) confirmed = (int)e->rfc;
            snprintf(b, sizeof b, "SETUP rfc=%d ret=%d", (int)e->rfc, r); out.push_back(b);
        } break;
        case IS_EMAIL: {
            if (confirmed < 0) { out.push_back("IS skipped"); break; }
            rt::enter_sut(); int r = eav_is_email(e, s, n); const char *m = eav_errstr(e); rt::leave_sut();
            if (op.mf) out.push_back("AF " + rt::alloc_fault_signature());
            snprintf(b, sizeof b, "IS mode=%d ret=%d ec=%d ", confirmed, r, e->errcode);
            out.push_back(string(b) + res_str(e->result) + " msg=" + (m ? m : "(null)"));
        } break;
        case ERRSTR: { rt::enter_sut(); const char *m = eav_errstr(e); rt::leave_sut(); out.push_back(string("ERRSTR ") + (m ? m : "(null)")); } break;
        case FREE_INIT: { rt::enter_sut(); eav_free(e); eav_init(e); rt::leave_sut(); confirmed = -1; out.push_back("FREE_INIT"); } break;
        case EXIT: {
            // this thread calls exit(): the library's atexit handlers and destructors run on it while the other threads go on
            // validating; exit() does not return, so the program ends here and its object is never freed
            if (!sh->exited) { sh->exited = true; rt::enter_sut(); size_t n = rt::run_library_exit(); rt::leave_sut(); sh->exit_handlers_run += n; }
            out.push_back("EXIT"); sh->stopped[tid] = 1;
        } break;
        case LOCAL: {
            const char *le = at ? at : end; int r = 0;
            rt::enter_sut();
            switch ((int)op.v & 3) { case 0: r = is_822_local(s, le); break; case 1: r = is_5321_local(s, le); break; case 2: r = is_5322_local(s, le); break; default: r = is_6531_local(s, le); }
            rt::leave_sut();
            snprintf(b, sizeof b, "LOCAL m=%d rc=%d", (int)op.v & 3, r); out.push_back(b);
        } break;
        case ADOM: { rt::enter_sut(); int r = is_ascii_domain(dom, end); rt::leave_sut(); snprintf(b, sizeof b, "ADOM rc=%d", r); out.push_back(b); } break;
        case UDOM: {
#ifdef HAVE_IDNKIT
            if (confirmed != 3) { out.push_back("UDOM skipped"); break; }      // needs the object's live resolver context
            idn_result_t ir = idn_success; rt::enter_sut(); int r = is_utf8_domain(e->idn, e->actions, &ir, dom, end, op.v ? true : false); rt::leave_sut();
#else
            int ir = 0; rt::enter_sut(); int r = is_utf8_domain(&ir, dom, end, op.v ? true : false); rt::leave_sut();
#endif
            snprintf(b, sizeof b, "UDOM tld=%d rc=%d idn=%d", (int)(op.v ? 1 : 0), r, (int)ir); out.push_back(b);
        } break;
        case IP4: case IP6: case IPADDR: {
            const char *bs = dom, *be = end;
            if (bs < be && *bs == '[') { bs++; if (be > bs && be[-1] == ']') be--; }
            rt::enter_sut(); int r = op.k == IP4 ? is_ipv4(bs, be) : op.k == IP6 ? is_ipv6(bs, be) : is_ipaddr(bs, be); rt::leave_sut();
            snprintf(b, sizeof b, "%s rc=%d", KNAME[op.k], r); out.push_back(b);
        } break;
        case TLD: {
            const char *l = dom; for (const char *q = dom; q < end; q++) if (*q == '.') l = q + 1;
            rt::enter_sut(); int r = is_tld(l, end); rt::leave_sut();
            snprintf(b, sizeof b, "TLD rc=%d", r); out.push_back(b);
        } break;
        case SPECIAL: {
            if (dom == end) { out.push_back("SPECIAL skipped"); break; }
            rt::enter_sut(); int r = is_special_domain(dom, end); rt::leave_sut();
            snprintf(b, sizeof b, "SPECIAL rc=%d", r); out.push_back(b);
        } break;
        case EMAIL: {
            bool tld = ((int)op.v >> 2) & 1; eav_result_t *r = nullptr;
            rt::enter_sut();
#ifdef HAVE_IDNKIT
            if (((int)op.v & 3) == 3 && confirmed != 3) { rt::leave_sut(); out.push_back("EMAIL skipped"); break; }
            switch ((int)op.v & 3) { case 0: r = is_822_email(s, n, tld); break; case 1: r = is_5321_email(s, n, tld); break; case 2: r = is_5322_email(s, n, tld); break; default: r = is_6531_email(e->idn, e->actions, s, n, tld); }
#else
            switch ((int)op.v & 3) { case 0: r = is_822_email(s, n, tld); break; case 1: r = is_5321_email(s, n, tld); break; case 2: r = is_5322_email(s, n, tld); break; default: r = is_6531_email(s, n, tld); }
#endif
            rt::leave_sut();
            if (op.mf) out.push_back("AF " + rt::alloc_fault_signature());
            string rs = res_str(r);
            rt::enter_sut(); eav_result_free(r); rt::leave_sut();
            snprintf(b, sizeof b, "EMAIL m=%d tld=%d ", (int)op.v & 3, (int)tld); out.push_back(string(b) + rs);
        } break;
        default: break;
        }
        if (sh->stopped[tid]) break;
    }
    rt::arm_alloc_fault(0);
    if (do_free && !sh->stopped[tid]) { rt::enter_sut(); eav_free(e); rt::leave_sut(); out.push_back("END"); }
}

// a worker: its items in plan order; re-entered after an abort inside the library, with the aborted item still in flight
static void thread_entry(int X, void *arg) {
    Shared *sh = (Shared *)arg;
    for (;;) {
        size_t c = sh->cursor[X]; if (c >= sh->byexec[X].size()) break;
        Shared::Item &it = sh->items[sh->byexec[X][c]];
        if (!sh->inflight[X]) {
            if (it.pred >= 0 && sh->items[(size_t)it.pred].exec != X) rt::wait(&sh->items[(size_t)it.pred]);
            sh->inflight[X] = 1; sh->cur_prog[X] = it.prog;
            if (it.kind == 1) { run_segment(it.prog, sh, it.oi, it.oi + 1, false, false, true); rt::op_boundary(); }
            else run_segment(it.prog, sh, it.oi, it.oi, it.kind == 0, it.kind == 2, true);
        }
        sh->inflight[X] = 0;
        if (it.needs_post) rt::post(&it);
        sh->cursor[X] = c + 1;
    }
}
static void seq_entry(int tid, void *arg) { Shared *sh = (Shared *)arg; run_segment(tid, sh, 0, sh->prog[tid].size(), true, true, false); }
static void pre_entry(int tid, void *arg) { Shared *sh = (Shared *)arg; run_segment(tid, sh, 0, sh->a[tid], true, false, false); }
static void post_entry(int tid, void *arg) { Shared *sh = (Shared *)arg; run_segment(tid, sh, sh->b[tid], sh->prog[tid].size(), false, true, false, true); }
// the library aborted / asserted inside a call of this thread: that is the outcome of the call (what matters is whether
// the same happens when the thread runs alone)
static void on_abort(int tid, void *arg) { Shared *sh = (Shared *)arg; int prog = sh->in_concurrent ? sh->cur_prog[tid] : tid; if (prog < 0) prog = tid; if (rt::alloc_fault_armed()) sh->out[prog].push_back("AF " + rt::alloc_fault_signature()); sh->out[prog].push_back("ABORTED inside the library"); sh->stopped[prog] = 1; rt::arm_alloc_fault(0); }

// ------------------------------------------------------------------ execution of one plan
struct Viol { string cls, detail; };
static const size_t STACK_LIMIT = 32u << 10;
struct Stats {
    uint64_t plans = 0, steps = 0, events = 0, ctx_switches = 0, seq_steps = 0, ops = 0, lib_calls = 0, threads_hist[rt::MAXT + 1] = { 0 }, policy_hist[5] = { 0 };
    uint64_t stack_used_max = 0, alloc_fault_not_comparable = 0, exit_plans = 0, exit_handlers_run = 0, relay_plans = 0, relay_handovers = 0, handoff_plans = 0, calls_by_main_before_start = 0, calls_by_main_after_join = 0, alloc_faults_attached = 0, aborted_calls = 0, spin_yields = 0, sem_eintr = 0, inconclusive_shadow_overflow = 0, write_shared = 0, sync_ops = 0, atomic_ops = 0, pseudo_writes = 0, outcome_cmp = 0, globals_dirty_after_seq = 0, races_seen = 0;
    std::set<uint64_t> interleavings, plan_hashes, nontrivial;
    uint64_t kind[NKINDS] = { 0 };
};
static Stats ST;

struct RunOut { vector<Viol> viols; uint64_t h = SIM_FNV_INIT; vector<string> log; vector<rt::Switch> switches; };

static void run_plan(const Plan &p, bool want_log, RunOut &ro, bool count = true) {
    auto rec = [&](const string &s) { ro.h = sim_fnv1a(ro.h, s.data(), s.size()); ro.h = sim_fnv1a(ro.h, "\n", 1); if (want_log) ro.log.push_back(s); };
    auto viol = [&](const string &c, const string &d) { Viol v; v.cls = c; v.detail = d; ro.viols.push_back(v); rec("VIOLATION " + c + " | " + d); };
    Shared sh; sh.plan = &p; sh.layout();
    bool handoff = false; for (int t = 0; t < p.nthreads; t++) if (sh.init_by_main[t] || sh.free_by_main[t]) handoff = true;
    rt::clear_named();
#ifdef HAVE_IDNKIT
    sim_ctx_reset(); g_sim_nreports = 0;
#endif
    if (!rt::set_process_locale(p.locale.c_str())) rt::set_process_locale("C");
    int si = 0;
    for (auto &op : p.ops) if ((op.k == IS_EMAIL || op.k >= LOCAL) && !sh.strings.count(op.a)) {
        char *m = (char *)malloc(op.a.size() + 1); memcpy(m, op.a.data(), op.a.size()); m[op.a.size()] = 0;
        sh.strings[op.a] = m; rt::name_range(m, op.a.size() + 1, "shared input string #" + std::to_string(si++));
    }
    sim_rng fr = sim_derive(p.seed ^ (uint64_t)p.index, 0xF111);
    auto new_objs = [&]() {
        for (void *o : sh.objs) free(o);
        sh.objs.clear();
        for (int t = 0; t < p.nthreads; t++) { unsigned char *m = (unsigned char *)malloc(sizeof(eav_t)); for (size_t i = 0; i < sizeof(eav_t); i++) { unsigned v = (unsigned)(sim_next(&fr) & 0xff); m[i] = (unsigned char)(v ? v : 0xa5); } sh.objs.push_back(m); rt::name_range(m, sizeof(eav_t), "eav_t of thread " + std::to_string(t)); }
    };
    rec("PLAN threads=" + std::to_string(p.nthreads) + " ops=" + std::to_string(p.ops.size()));
    // ---- sequential reference: each thread's program alone, library statics pristine
    vector<vector<string>> seq(p.nthreads);
    uint64_t seq_steps = 0; bool dirty = false;
    new_objs();
    // every reference run and the concurrent phase are processes of their own: the work of "the main thread" is done on a
    // fresh OS thread each time, so that thread-local state of the library starts empty like its statics do
    auto fresh = [](std::function<void()> f) { rt::on_fresh_thread([](void *q) { (*(std::function<void()> *)q)(); }, &f); };
    for (int t = 0; t < p.nthreads; t++) fresh([&]() {
        rt::reset_library_globals();
        sh.out.assign(p.nthreads, vector<string>()); sh.fresh_state();
        rt::begin_sequential();
        rt::run_sequential(seq_entry, t, &sh);
        seq_steps += rt::end_sequential();
        if (rt::library_globals_dirty()) dirty = true;
        seq[t] = sh.out[t];
    });
    // ---- concurrent phase, from pristine library statics
    rt::Result res; rt::Config cfg; uint64_t handoff_steps = 0;
    fresh([&]() {
    rt::reset_library_globals();
    new_objs();
    sh.out.assign(p.nthreads, vector<string>()); sh.fresh_state();
    // object handoff, first half: the main thread initialises some objects and makes the leading calls of their programs;
    // thread creation orders all of that before everything the threads do
    if (handoff) {
        rt::begin_sequential();
        for (int t = 0; t < p.nthreads; t++) if (sh.init_by_main[t]) rt::run_sequential(pre_entry, t, &sh);
        handoff_steps += rt::end_sequential();
    }
    cfg.nthreads = p.nthreads; cfg.keep_sync_state = handoff; cfg.script = p.script; cfg.op_boundaries = !p.script.empty(); cfg.policy = p.has_switches ? 0 : p.policy; cfg.den = p.den; cfg.quantum = p.quantum; cfg.pct_depth = p.depth;
    cfg.pct_est_steps = seq_steps ? seq_steps : 1; cfg.sched_seed = p.sched_seed; cfg.replay = p.switches; cfg.sig_rate = p.sig;
    cfg.step_budget = 20 * seq_steps + 2000;
    sh.in_concurrent = true;
    rt::run_concurrent(cfg, thread_entry, &sh, res);
    sh.in_concurrent = false;
    ro.switches = res.switches;
    // second half: after the join the main thread makes the trailing calls and frees the objects
    if (handoff) {
        rt::begin_sequential();
        for (int t = 0; t < p.nthreads; t++) if (sh.free_by_main[t]) rt::run_sequential(post_entry, t, &sh);
        handoff_steps += rt::end_sequential();
    }
    });
    char b[200];
    snprintf(b, sizeof b, "RUN steps=%llu events=%llu switches=%llu seq_steps=%llu ih=%016llx", (unsigned long long)res.steps, (unsigned long long)res.events, (unsigned long long)res.ctx_switches, (unsigned long long)seq_steps, (unsigned long long)res.interleaving_hash);
    rec(b);
    // ---- oracle 1: no data race
    if (!res.races.empty()) {
        std::sort(res.races.begin(), res.races.end(), [](const rt::Race &x, const rt::Race &y) { return std::make_pair(std::min(x.pc_a, x.pc_b), std::max(x.pc_a, x.pc_b)) < std::make_pair(std::min(y.pc_a, y.pc_b), std::max(y.pc_a, y.pc_b)); });
        const rt::Race &r = res.races[0];
        snprintf(b, sizeof b, "C14:data-race:%zx:%zx", (size_t)std::min(r.pc_a, r.pc_b), (size_t)std::max(r.pc_a, r.pc_b));
        string d = r.kind + " race on " + r.where + ": thread " + std::to_string(r.tid_a) + " at " + r.fn_a + " then thread " + std::to_string(r.tid_b) + " at " + r.fn_b + " with no happens-before edge";
        if (res.races.size() > 1) d += " (+" + std::to_string(res.races.size() - 1) + " more racing pairs)";
        viol(b, d);
    }
#ifdef HAVE_IDNKIT
    // the idnkit stand-in checks every create / destroy / use of a resolver context
    if (g_sim_nreports > 0) viol(string("C14:") + g_sim_report_cls[0], g_sim_report_detail[0]);
#endif
    // a worker needs a few KiB of stack on the unchanged tree (see max_worker_stack_bytes_used in the evidence); whoever creates
    // threads with small stacks (PTHREAD_STACK_MIN is 16 KiB, musl's default is 128 KiB) relies on that order of magnitude
    if (res.stack_used_max > STACK_LIMIT) viol("C14:stack-use-beyond-small-thread-stacks", "thread " + std::to_string(res.stack_used_thread) + " used " + std::to_string(res.stack_used_max >= (256u << 10) ? 256 : (int)(res.stack_used_max >> 10)) + (res.stack_used_max >= (256u << 10) ? "+" : "") + " KiB of stack below its thread function; the limit checked is " + std::to_string(STACK_LIMIT >> 10) + " KiB");
    if (!res.bad_free.empty()) viol("C14:free-of-thread-memory", res.bad_free);
    if (!sh.dangling.empty()) viol("C14:object-points-into-finished-thread", sh.dangling);
    // ---- oracle 3: progress
    if (res.deadlock) viol("C14:deadlock", "all unfinished threads are blocked");
    if (res.budget_exceeded) viol("C14:no-progress", "run exceeded 20x the sequential step count");
    // (an abort/assert inside the library is an outcome: it is compared with the sequential run below)
    // more distinct bytes touched than the detector can shadow: this run cannot be judged for races - counted, not an alarm
    if (res.shadow_overflow) { ST.inconclusive_shadow_overflow++; rec("INCONCLUSIVE shadow table full"); }
    // ---- oracle 2: concurrent = sequential
    if (ro.viols.empty() || res.races.size()) {
        for (int t = 0; t < p.nthreads; t++) {
            ST.outcome_cmp++;
            const vector<string> &a = seq[t], &c = sh.out[t];
            size_t i = 0; while (i < a.size() && i < c.size() && a[i] == c[i]) i++;
            // an attached allocation failure met different allocations in the two executions (a record served from a
            // per-thread cache needs none): from here on the two logs are not comparable
            if (i < a.size() && i < c.size() && a[i].compare(0, 3, "AF ") == 0 && c[i].compare(0, 3, "AF ") == 0) { ST.alloc_fault_not_comparable++; continue; }
            if (i < a.size() || i < c.size()) {
                viol("C14:outcome-differs-from-sequential", "thread " + std::to_string(t) + " call #" + std::to_string(i) + ": alone {" + (i < a.size() ? a[i] : string("(end)")) + "} concurrently {" + (i < c.size() ? c[i] : string("(end)")) + "}");
                break;
            }
        }
    }
    for (int t = 0; t < p.nthreads; t++) { rec("T" + std::to_string(t) + " calls=" + std::to_string(sh.out[t].size())); if (want_log) for (auto &l : sh.out[t]) ro.log.push_back("  T" + std::to_string(t) + " " + l); }
    rec("END");
    for (auto &kv : sh.strings) free(kv.second);
    for (void *o : sh.objs) free(o);
    if (count) {
        ST.plans++; ST.steps += res.steps; ST.events += res.events; ST.ctx_switches += res.ctx_switches; ST.seq_steps += seq_steps; ST.ops += p.ops.size();
        ST.threads_hist[p.nthreads]++; ST.policy_hist[cfg.policy % 5]++;
        ST.write_shared += res.write_shared_locations; ST.sync_ops += res.sync_ops; ST.atomic_ops += res.atomic_ops; ST.pseudo_writes += res.pseudo_writes; ST.spin_yields += res.spin_yields; ST.sem_eintr += res.sem_eintr;
        if (dirty) ST.globals_dirty_after_seq++;
        ST.races_seen += res.races.size(); if (res.stack_used_max > ST.stack_used_max) ST.stack_used_max = res.stack_used_max;
        for (auto &op : p.ops) { ST.kind[op.k]++; if (op.mf) ST.alloc_faults_attached++; }
        { bool ex = false; for (auto &op : p.ops) if (op.k == EXIT) ex = true; if (ex) ST.exit_plans++; ST.exit_handlers_run += sh.exit_handlers_run; }
        if (sh.relay) { ST.relay_plans++; for (auto &it : sh.items) if (it.needs_post) ST.relay_handovers++; }
        if (handoff) { ST.handoff_plans++; for (int t = 0; t < p.nthreads; t++) { ST.calls_by_main_before_start += sh.a[t]; ST.calls_by_main_after_join += sh.prog[t].size() - sh.b[t]; } }
        for (int t = 0; t < p.nthreads; t++) for (auto &l : sh.out[t]) if (l.compare(0, 7, "ABORTED") == 0) ST.aborted_calls++;
        if (ST.interleavings.size() < 4000000) ST.interleavings.insert(res.interleaving_hash);
        string oj = sj::dump(plan_to_json(p));
        uint64_t ph = sim_fnv1a(SIM_FNV_INIT, oj.data(), oj.size());
        ST.plan_hashes.insert(ph);
        if (res.ctx_switches >= 2 && res.events > 0) ST.nontrivial.insert(ph ^ res.interleaving_hash);
    }
}

// ------------------------------------------------------------------ generation
static vector<string> g_pool;
static vector<string> g_idn_tld_addrs;                 // one address per xn-- TLD of the table (A-label form)
static vector<string> g_all_tld_addrs;                 // one address per TLD of the table
static vector<std::pair<string, string>> g_pairs;      // addresses whose TLDs are related (one a prefix of the other, different class)
static string g_repo = "/repo";
static void build_pool() {
    const char *fs[] = { "email-result-check.txt", "email-utf8.txt", "fail-email-ascii.txt", "pass-email-ascii.txt", "email-reg.ru.txt", "retired.txt" };
    for (auto f : fs) {
        string s; try { s = sj::read_file(g_repo + "/data/" + f); } catch (...) { continue; }
        size_t i = 0;
        while (i < s.size()) { size_t j = s.find('\n', i); if (j == string::npos) j = s.size(); string l = s.substr(i, j - i); if (!l.empty() && l.back() == '\r') l.pop_back(); if (!l.empty() && l[0] != '#' && l.find('\0') == string::npos) g_pool.push_back(l); i = j + 1; }
    }
    const char *more[] = { "user@example.com", "user@example.org", "user@sub.example.net", "x@mailbox.org", "x@localhost", "u@hidden.onion", "u@bad.invalid", "u@mail.info", "u@a.test", "u@host.email",
        "user@iana.org", "a@b.ru", "a@b.com", "\xd0\xb8\xd0\xb2\xd0\xb0\xd0\xbd@\xd0\xbf\xd0\xbe\xd1\x87\xd1\x82\xd0\xb0.\xd1\x80\xd1\x84", "u@xn--80a1acny.xn--p1ai", "u@\xe2\x98\x95.de",
        "x@[1.2.3.4]", "x@[IPv6:2001:db8::1]", "\"q s\"@mail.ru", "\xe7\x94\xa8\xe6\x88\xb7@\xe4\xbe\x8b\xe3\x81\x88.jp", "a..b@c.com", "u@host.museum", "u@host.aero", "u@nic.arpa", "u@x.bbva", "u@y.adac", "u@z.zw", "u@q.aaa",
        "very.long.local.part.with.many.dots.and.words@a.b.c.d.e.f.iana.org", "u@EXAMPLE.COM", "u@Test", "u@example",
        // rooted (trailing dot) names, label lengths around internal limits, very long addresses
        "user@example.com.", "u@sub.example.net.", "u@mail.ru.", "x@iana.org.", "u@a.test.", "u@localhost.", "u@hidden.onion.", "u@host.museum.", "u@\xd0\xbf\xd0\xbe\xd1\x87\xd1\x82\xd0\xb0.\xd1\x80\xd1\x84.",
        "u@aaaaaaaaaaaaaaaaaaaaaaaaaaaaaaaaaaaaaaaaaaaaaaaaaaaaaaaaaaaaaaaaaaaaaaaaaaaaaaaaaaaaaaaaaaaaaaaaaaaaaaaaaaaaaaaaaaaaaaaaaaaaaaa.com", "u@a.b.c.d.e.f.g.h.i.j.k.l.m.n.o.p.q.r.s.t.u.v.w.x.y.z.example.org", "\xd1\x82\xd0\xb5\xd1\x81\xd1\x82@b\xc3\xbc" "cher.de" };
    for (auto m : more) g_pool.push_back(m);
    for (size_t n : { (size_t)1023, (size_t)1025, (size_t)1100, (size_t)5000, (size_t)20000, (size_t)40000, (size_t)60000 }) { string dom; while (dom.size() + 12 < n) dom += "abcdefghij."; dom += "com"; g_pool.push_back("user@" + dom); g_pool.push_back("\xd0\xb8@" + dom); }
    // TLD pairs where one name is a proper prefix of the other and the classes differ: a cache or scratch buffer
    // shared between threads turns one into the other
    int nt = 0; while (tld_list[nt].domain) nt++;
    for (int i = 0; i < nt; i++) {
        g_all_tld_addrs.push_back(string("u@m.") + tld_list[i].domain);
        if (!strncmp(tld_list[i].domain, "xn--", 4)) g_idn_tld_addrs.push_back(string("u@m.") + tld_list[i].domain);
    }
    for (int i = 0; i < nt; i++) { string a = tld_list[i].domain; if (a.size() >= 14 && (i % 2) == 0) g_pairs.push_back({ "u@x." + a + a.back(), "u@x." + a }); }     // unknown neighbour of a long TLD, then the TLD
    size_t pairs_cap = g_pairs.size() + 400;
    for (int i = 0; i < nt && g_pairs.size() < pairs_cap; i++) for (int j = 0; j < nt; j++) {
        if (i == j) continue;
        size_t li = strlen(tld_list[i].domain), lj = strlen(tld_list[j].domain);
        if (li < lj && !strncmp(tld_list[i].domain, tld_list[j].domain, li) && tld_list[i].type != tld_list[j].type && (i * 31 + j) % 5 == 0)
            g_pairs.push_back({ string("u@x.") + tld_list[i].domain, string("u@x.") + tld_list[j].domain });
    }
}

// ---- conflict discovery: every TLD label is looked up once, alone, in a simulated process of its own, and the bytes of library
// static storage the look-up wrote (or touched atomically) are recorded; labels sharing such bytes form the pairs that the
// "conflict" plans explore.  Deterministic for a given build; empty on a tree that keeps no such storage.
static vector<std::pair<string, string>> g_conf, g_conf_addr; static bool g_conf_done = false; static size_t g_conf_labels_writing = 0, g_conf_locations = 0;
static void discover_conflicts() {
    if (g_conf_done) return;
    g_conf_done = true;
    int nt = 0; while (tld_list[nt].domain) nt++;
    std::map<uint64_t, vector<int>> by_addr;
    for (int i = 0; i < nt; i++) {
        std::function<void()> f = [&]() {
            rt::reset_library_globals(); rt::begin_sequential(); rt::record_static_accesses(true);
            const char *l = tld_list[i].domain;
            rt::enter_sut(); (void)is_tld(l, l + strlen(l)); rt::leave_sut();
            vector<uint64_t> r = rt::take_recorded(); rt::record_static_accesses(false); rt::end_sequential();
            if (!r.empty()) g_conf_labels_writing++;
            for (uint64_t a : r) by_addr[a >> 3].push_back(i);          // word granularity
        };
        rt::on_fresh_thread([](void *q) { (*(std::function<void()> *)q)(); }, &f);
    }
    // second family: whole addresses through eav_is_email (mode 6531, TLD check on) - caches keyed by the address or its domain
    {
        std::map<uint64_t, vector<int>> by2; vector<string> keys;
        for (size_t i = 0; i < g_pool.size() && keys.size() < 1500; i++) if (g_pool[i].size() < 300 && g_pool[i].find('@') != string::npos) keys.push_back(g_pool[i]);
        for (size_t i = 0; i < keys.size(); i++) {
            std::function<void()> f = [&]() {
                rt::reset_library_globals(); rt::begin_sequential();
                eav_t e; memset(&e, 0xa5, sizeof e);
                rt::enter_sut(); eav_init(&e); e.rfc = EAV_RFC_6531; int ok = eav_setup(&e); rt::leave_sut();
                rt::record_static_accesses(true);
                if (ok == 0) { rt::enter_sut(); (void)eav_is_email(&e, keys[i].c_str(), keys[i].size()); rt::leave_sut(); }
                vector<uint64_t> r = rt::take_recorded(); rt::record_static_accesses(false);
                rt::enter_sut(); eav_free(&e); rt::leave_sut();
                rt::end_sequential();
                for (uint64_t a : r) by2[a >> 3].push_back((int)i);
            };
            rt::on_fresh_thread([](void *q) { (*(std::function<void()> *)q)(); }, &f);
        }
        std::set<std::pair<int, int>> seen2;
        for (auto &kv : by2) {
            vector<int> v = kv.second; std::sort(v.begin(), v.end()); v.erase(std::unique(v.begin(), v.end()), v.end());
            if (v.size() < 2 || v.size() > 24) continue;
            g_conf_locations++;
            for (size_t x = 0; x < v.size() && g_conf_addr.size() < 32; x++) for (size_t y = x + 1; y < v.size() && g_conf_addr.size() < 32; y++)
                if (seen2.insert({ v[x], v[y] }).second) g_conf_addr.push_back({ keys[v[x]], keys[v[y]] });
        }
    }
    std::set<std::pair<int, int>> seen; vector<std::pair<int, std::pair<int, int>>> ranked;
    for (auto &kv : by_addr) {
        vector<int> v = kv.second; std::sort(v.begin(), v.end()); v.erase(std::unique(v.begin(), v.end()), v.end());
        if (v.size() < 2 || v.size() > 24) continue;       // bytes every label writes (a counter) say nothing about pairs
        g_conf_locations++;
        for (size_t x = 0; x < v.size(); x++) for (size_t y = x + 1; y < v.size(); y++) {
            if (!seen.insert({ v[x], v[y] }).second) continue;
            const char *a = tld_list[v[x]].domain, *b = tld_list[v[y]].domain; size_t la = strlen(a), lb = strlen(b);
            int score = 0;
            if (tld_list[v[x]].type != tld_list[v[y]].type) score += 2;
            if (!strncmp(a, b, la < lb ? la : lb)) score += 4;              // one a prefix of the other
            ranked.push_back({ -score, { v[x], v[y] } });
        }
    }
    std::sort(ranked.begin(), ranked.end());
    for (size_t i = 0; i < ranked.size() && i < 64; i++) g_conf.push_back({ string("u@x.") + tld_list[ranked[i].second.first].domain, string("u@x.") + tld_list[ranked[i].second.second].domain });
}

static Plan gen_plan(const string &cfg, uint64_t seed, long long index) {
    Plan p; p.cfg = cfg; p.seed = seed; p.index = index;
    uint64_t rs = sim_mix64(seed ^ sim_mix64((uint64_t)index * 0x9E3779B97F4A7C15ULL + 14));
    // one plan in three runs in an application that handles signals without SA_RESTART: blocking waits may return EINTR
    // (generated only when VERIF_SIG is set: see DESIGN.md section 12, round 20 - an unexplained C14:deadlock report on the benign B14h)
    { uint64_t sg = sim_mix64(rs ^ 0x51671a1ULL); p.sig = (getenv("VERIF_SIG") && sg % 3 == 0) ? 10 + (int)((sg >> 8) % 60) : 0; }
    sim_rng w = sim_derive(rs, 1), s = sim_derive(rs, 2), lr = sim_derive(rs, 3);
    p.locale = sim_below(&lr, 3) == 0 ? "C.UTF-8" : "C";
    static const int TS[] = { 2, 2, 2, 3, 3, 4, 4, 8, 16 };
    p.nthreads = TS[sim_below(&w, 9)];
    if (cfg == "conflict") {
        // conflict-directed small scope: pairs of TLD labels whose look-ups touch the same bytes of library static storage (found
        // by discover_conflicts(); none on a tree without such storage), one thread per label after the main thread has looked
        // the first one up once, every schedule with at most two preemptions among the first 32 scheduling points
        discover_conflicts();
        p.nthreads = 2; p.locale = "C";
        if (g_conf.empty() && g_conf_addr.empty()) { p.nthreads = 1; Op o; o.t = 0; o.k = TLD; o.a = "u@x.com"; p.ops.push_back(o); p.policy = 2; return p; }
        const long P1 = (long)g_conf.size(), P = P1 + (long)g_conf_addr.size();
        long pair = (long)(index % P); bool addr = pair >= P1;
        const long SMAX = addr ? 64 : 32, NSCHED = 1 + SMAX + SMAX * (SMAX - 1) / 2;
        long k = (long)((index / P) % (4 * NSCHED)); int first = (int)(k % 2); k /= 2; int role = (int)(k % 2); long sched = k / 2;
        const std::pair<string, string> &pr = addr ? g_conf_addr[(size_t)(pair - P1)] : g_conf[(size_t)pair];
        string A = role ? pr.second : pr.first, B = role ? pr.first : pr.second;
        if (addr) {     // whole addresses: the main thread sets both objects up and validates A once; then one worker per address
            for (int t = 0; t < 2; t++) { Op r; r.t = t; r.k = SET_RFC; r.v = 3; r.ph = 1; p.ops.push_back(r); Op u; u.t = t; u.k = SETUP; u.ph = 1; p.ops.push_back(u); if (t == 0) { Op w0; w0.t = 0; w0.k = IS_EMAIL; w0.a = A; w0.ph = 1; p.ops.push_back(w0); } }
            Op a0; a0.t = 0; a0.k = IS_EMAIL; a0.a = A; p.ops.push_back(a0);
            Op b0; b0.t = 1; b0.k = IS_EMAIL; b0.a = B; p.ops.push_back(b0);
            p.main_free = { 0, 1 };
        } else {
        Op w0; w0.t = 0; w0.k = TLD; w0.a = A; w0.ph = 1; p.ops.push_back(w0);
        Op a0; a0.t = 0; a0.k = TLD; a0.a = A; p.ops.push_back(a0);
        Op b0; b0.t = 1; b0.k = TLD; b0.a = B; p.ops.push_back(b0);
        p.main_init = { 0, 1 }; p.main_free = { 0, 1 };
        }
        p.policy = 0; p.has_switches = true;
        p.switches.push_back(rt::Switch{ 0, first, 0 });
        if (sched >= 1 && sched <= SMAX) p.switches.push_back(rt::Switch{ (uint64_t)sched, 1 - first, 0 });
        else if (sched > SMAX) {
            long q = sched - SMAX - 1, i = 1; while (q >= SMAX - i) { q -= SMAX - i; i++; }
            long j = i + 1 + q;
            p.switches.push_back(rt::Switch{ (uint64_t)i, 1 - first, 0 }); p.switches.push_back(rt::Switch{ (uint64_t)j, first, 0 });
        }
        return p;
    }
    if (cfg == "aba") {
        // narrow change counters: one thread is parked between two of its first events while another replaces the shared state
        // exactly 2^8 or 2^16 times (the last replacement restoring what the parked thread saw), with a short stop in between -
        // the schedule under which a validity check built on a wrapping tag accepts stale data.  Only where labels write static storage.
        discover_conflicts();
        p.nthreads = 2; p.locale = "C";
        if (g_conf_labels_writing == 0) { p.nthreads = 1; Op o; o.t = 0; o.k = TLD; o.a = "u@x.com"; p.ops.push_back(o); p.policy = 2; return p; }
        vector<std::pair<string, string>> pr = { { "u@x.de", "u@x.com" }, { "u@x.ru", "u@x.info" }, { "u@x.jp", "u@x.aero" } };
        for (size_t i = 0; i < g_conf.size() && i < 5; i++) pr.push_back(g_conf[i]);
        const long NI = 16, NK = 2, NM = 3, P = (long)pr.size();
        long k = (long)index; long pair = k % P; k /= P; long ii = k % NI; k /= NI; long kk = 1 + k % NK; k /= NK; long mm = 1 + k % NM; k /= NM; int role = (int)(k % 2); k /= 2;
        long N = (k % 2) ? 65536 : 256;
        string A = role ? pr[pair].second : pr[pair].first, B = role ? pr[pair].first : pr[pair].second;
        Op w0; w0.t = 0; w0.k = TLD; w0.a = A; w0.ph = 1; p.ops.push_back(w0);
        Op a0; a0.t = 0; a0.k = TLD; a0.a = A; p.ops.push_back(a0);
        for (long i = 0; i < N; i++) { Op b0; b0.t = 1; b0.k = TLD; b0.a = (i % 2) ? A : B; p.ops.push_back(b0); }
        p.main_init = { 0, 1 }; p.main_free = { 0, 1 };
        p.policy = 5;
        p.script = { { 0, 0, (uint64_t)ii }, { 1, 1, (uint64_t)kk }, { 0, 0, (uint64_t)mm }, { 1, 2, 0 }, { 0, 2, 0 } };
        if (ii == 0) p.script.erase(p.script.begin());
        return p;
    }
    if (cfg == "systematic") {
        // small scope, complete: two threads, one validation each, and EVERY schedule with at most two preemptions among the
        // first SMAX scheduling points (plus either thread starting).  index = ((pair * 2 + first) * NSCHED) + schedule number.
        static const char *PAIRS[][2] = {
            { "u@b\xc3\xbc" "cher.de", "u@xn--a.com" },                                 // converts / malformed A-label
            { "u@\xff\xfe.com", "u@xn--zz--zz.com" },                                    // two different IDN failures
            { "u@" "aaaaaaaaaaaaaaaaaaaaaaaaaaaaaaaaaaaaaaaaaaaaaaaaaaaaaaaaaaaaaaaaaaaaaaaaaaaaaaaaaaaaaaaaaaaaaaaaaaaaaaaaaaaaaaaaaaaaaaaaaaaaaaa.com", "u@\xe2\x80\x8d.com" },   // label too long / contextj
            { "user@example.com", "user@example.org" },
            { "u@x.ai", "u@x.airforce" },                                                 // related TLDs
            { "u@x.americanexpresss", "u@x.americanexpress" },                            // unknown neighbour of a long TLD
            { "x@[IPv6:::ffff:192.0.2.128]", "x@[IPv6:::ffff:192.0.2.128]" },             // same shared string
            { "\xd0\xb8\xd0\xb2\xd0\xb0\xd0\xbd@\xd0\xbf\xd0\xbe\xd1\x87\xd1\x82\xd0\xb0.\xd1\x80\xd1\x84", "u@xn--80a1acny.xn--p1ai" },
            { "u@m.COM", "u@m.coM" }, { "u@hidden.onion", "u@bad.invalid" }, { "\"q s\"@mail.ru", "a..b@c.com" }, { "u@\xc2\xad", "u@a.\xc2\xad" },
        };
        const long NPAIR = (long)(sizeof PAIRS / sizeof PAIRS[0]), SMAX = 48, NSCHED = 1 + SMAX + SMAX * (SMAX - 1) / 2;    // none, one, two preemptions
        long k = (long)(index % (NPAIR * 2 * NSCHED)); long sched = k % NSCHED; k /= NSCHED; int first = (int)(k % 2); long pair = k / 2;
        long variant = (long)(index / (NPAIR * 2 * NSCHED));            // further laps: other modes / call kinds
        p.nthreads = 2; p.locale = "C";
        for (int t = 0; t < 2; t++) {
            Op a; a.t = t; a.k = SET_RFC; a.v = (variant % 4 == 0) ? 3 : (long long)((variant + t) % 4); p.ops.push_back(a);
            Op b; b.t = t; b.k = SETUP; p.ops.push_back(b);
            Op o; o.t = t; o.k = (variant % 3 == 2) ? TLD : IS_EMAIL; o.a = PAIRS[pair][t]; p.ops.push_back(o);
        }
        p.policy = 0; p.has_switches = true;
        p.switches.push_back(rt::Switch{ 0, first, 0 });
        if (sched >= 1 && sched <= SMAX) p.switches.push_back(rt::Switch{ (uint64_t)sched, 1 - first, 0 });
        else if (sched > SMAX) {
            long q = sched - SMAX - 1, i = 1; while (q >= SMAX - i) { q -= SMAX - i; i++; }      // i in [1,SMAX), j in (i,SMAX]
            long j = i + 1 + q;
            p.switches.push_back(rt::Switch{ (uint64_t)i, 1 - first, 0 }); p.switches.push_back(rt::Switch{ (uint64_t)j, first, 0 });
        }
        return p;
    }
    if (cfg == "crowd") {
        // hundreds of threads, one or two calls each, a handful of shared strings: counters and queues sized for "a few" threads
        static const int CT[] = { 33, 64, 65, 128, 129, 255, 256, 257, 258, 300, 319 };
        static const int CT2[] = { 511, 512, 513, 514, 600, 768, 1000, 1023, 1024 };     // the build with a thread table of 1025
        p.nthreads = rt::MAXT > 600 ? CT2[sim_below(&w, 9)] : CT[sim_below(&w, 11)];
        if (p.nthreads > rt::MAXT - 1) p.nthreads = rt::MAXT - 1;
        if (rt::MAXT <= 600 && sim_below(&w, 5) == 0) {
            // lock-step sweep: a thread pool working through ONE list - every thread looks up the same 20-60 known labels in the same
            // order under a fine round-robin, so all of them meet every new label at the same moment (whatever is inserted
            // "once per label" is inserted once per thread; tables sized for the number of labels fill up)
            int nt2 = 0; while (tld_list[nt2].domain) nt2++;
            int K = 20 + (int)sim_below(&w, 41); int st = (int)sim_below(&w, (uint64_t)nt2);
            vector<string> keys; for (int i = 0; i < K; i++) keys.push_back(string("u@h.") + tld_list[(st + i * 13) % nt2].domain);
            bool viaemail = sim_below(&w, 3) == 0;
            for (int t = 0; t < p.nthreads; t++) {
                if (viaemail) { Op a; a.t = t; a.k = SET_RFC; a.v = 1; p.ops.push_back(a); Op b; b.t = t; b.k = SETUP; p.ops.push_back(b); }
                for (auto &x : keys) { Op o; o.t = t; o.k = viaemail ? IS_EMAIL : TLD; o.a = x; p.ops.push_back(o); }
            }
            p.sched_seed = sim_next(&s); p.policy = 2; p.quantum = 1 + sim_below(&s, 2);
            return p;
        }
        // the crowd works on labels of ONE length L: a valid TLD t, other valid TLDs of that length, an unknown label of that
        // length and an unknown extension of t - whatever per-length or per-prefix shortcut the lookup has, everybody is in it
        vector<string> pool;
        int nt = 0; while (tld_list[nt].domain) nt++;
        string t = tld_list[sim_below(&w, (uint64_t)nt)].domain; size_t L = t.size();
        for (int k = 0; k < 6; k++) pool.push_back("u@h." + t);
        int added = 0; for (int i = (int)sim_below(&w, (uint64_t)nt), c = 0; c < nt && added < 4; c++, i = (i + 1) % nt) if (strlen(tld_list[i].domain) == L && t != tld_list[i].domain) { pool.push_back(string("u@h.") + tld_list[i].domain); added++; }
        pool.push_back("u@h." + string(L, 'q')); pool.push_back("u@h." + t + "zzz"); pool.push_back("u@h." + t + "zzz");
        if (sim_below(&w, 2)) pool.push_back(g_pool[sim_below(&w, g_pool.size())]);
        for (int t = 0; t < p.nthreads; t++) {
            Op a; a.t = t; a.k = SET_RFC; a.v = (long long)sim_below(&w, 4); p.ops.push_back(a);
            Op b; b.t = t; b.k = SETUP; p.ops.push_back(b);
            int n = 1 + (int)sim_below(&w, 2);
            for (int i = 0; i < n; i++) { Op o; o.t = t; o.k = sim_below(&w, 2) ? IS_EMAIL : TLD; o.a = pool[sim_below(&w, pool.size())]; p.ops.push_back(o); }
        }
        p.sched_seed = sim_next(&s);
        unsigned k = (unsigned)sim_below(&s, 3);
        if (k == 0) { p.policy = 2; p.quantum = 1 + sim_below(&s, 3); } else if (k == 1) { p.policy = 4; p.den = 4; } else { p.policy = 1; p.den = 2; }
        return p;
    }
    if (sim_below(&w, 12) == 0 && !g_idn_tld_addrs.empty()) {
        // "sweep": every thread looks up a large shared set of TLDs in its own order. Hashed or set-associative
        // caches only go wrong when two particular keys meet; a big key set makes them meet.
        p.nthreads = 2 + (int)sim_below(&w, 3);
        const vector<string> &src = sim_below(&w, 3) ? g_idn_tld_addrs : g_all_tld_addrs;
        size_t k = 30 + sim_below(&w, src.size() > 200 ? 170 : src.size() - 30 + 1);
        vector<string> keys;
        if (k >= src.size()) keys = src; else { size_t st = sim_below(&w, src.size()); for (size_t i = 0; i < k; i++) keys.push_back(src[(st + i * 7) % src.size()]); }
        unsigned p_email = (unsigned)sim_below(&w, 30);
        for (int t = 0; t < p.nthreads; t++) {
            Op a; a.t = t; a.k = SET_RFC; a.v = (long long)sim_below(&w, 4); p.ops.push_back(a);
            Op b; b.t = t; b.k = SETUP; p.ops.push_back(b);
            vector<string> mine = keys;
            for (size_t i = mine.size(); i > 1; i--) std::swap(mine[i - 1], mine[sim_below(&w, i)]);
            int rounds = 1 + (int)sim_below(&w, 2);
            for (int r = 0; r < rounds; r++) for (auto &x : mine) { Op o; o.t = t; o.k = sim_below(&w, 100) < p_email ? IS_EMAIL : TLD; o.a = x; p.ops.push_back(o); }
        }
        p.sched_seed = sim_next(&s);
        p.policy = sim_below(&s, 2) ? 4 : 1; static const uint64_t D2[] = { 4, 16, 64 }; p.den = D2[sim_below(&s, 3)];
        return p;
    }
    int per = p.nthreads >= 8 ? 1 + (int)sim_below(&w, 8) : 1 + (int)sim_below(&w, 30);
    if (sim_below(&w, 3) == 0) per = 1 + (int)sim_below(&w, 4);
    int npool = 1 + (int)sim_below(&w, 8);
    vector<string> pool; for (int i = 0; i < npool; i++) { pool.push_back(g_pool[sim_below(&w, g_pool.size())]); if (sim_below(&w, 5) == 0) pool.back() = mut::mutate(&w, pool.back()); }
    if (!g_pairs.empty() && sim_below(&w, 3) == 0) {            // related strings, so that one thread's answer is wrong for another
        int np = 1 + (int)sim_below(&w, 2);
        if (sim_below(&w, 2)) pool.clear();
        for (int i = 0; i < np; i++) { auto &pr = g_pairs[sim_below(&w, g_pairs.size())]; pool.push_back(pr.first); pool.push_back(pr.second); }
    }
    unsigned p_low = (unsigned)sim_below(&w, 60), p_set = 5 + (unsigned)sim_below(&w, 25);
    unsigned p_alloc = sim_below(&w, 6) == 0 ? 5 + (unsigned)sim_below(&w, 30) : 0;     // one plan in six injects allocation failures
#ifdef NDEBUG
    p_alloc = 0;        // see plan_from_json
#endif
    bool same_program = sim_below(&w, 4) == 0;    // all threads run the same calls: maximal overlap
    vector<Op> proto;
    for (int t = 0; t < p.nthreads; t++) {
        vector<Op> mine;
        if (same_program && t > 0) { mine = proto; for (auto &o : mine) o.t = t; }
        else {
            Op a; a.t = t; a.k = SET_RFC; a.v = (long long)sim_below(&w, 4); mine.push_back(a);
            if (sim_below(&w, 3) == 0) { Op c; c.t = t; c.k = SET_ALLOW; c.v = (long long)(sim_next(&w) & 0x7fe); mine.push_back(c); }
            Op b; b.t = t; b.k = SETUP; mine.push_back(b);
            while ((int)mine.size() < per + 2) {
                Op op; op.t = t; unsigned c = (unsigned)sim_below(&w, 100);
                if (c < p_set) {
                    unsigned k = (unsigned)sim_below(&w, 5);
                    if (k == 0) { op.k = SET_RFC; op.v = (long long)sim_below(&w, 4); mine.push_back(op); Op su; su.t = t; su.k = SETUP; mine.push_back(su); continue; }
                    if (k == 1) { op.k = SET_TLD; op.v = (long long)sim_below(&w, 2); }
                    else if (k == 2) { op.k = SET_ALLOW; op.v = (long long)(sim_next(&w) & 0x7fe); }
                    else if (k == 3) op.k = ERRSTR;
                    else { op.k = FREE_INIT; mine.push_back(op); Op su; su.t = t; su.k = SETUP; mine.push_back(su); continue; }
                } else if (c < p_set + p_low) {
                    static const Kind LK[] = { LOCAL, ADOM, UDOM, IP4, IP6, IPADDR, TLD, SPECIAL, EMAIL, EMAIL, TLD, SPECIAL };
                    op.k = LK[sim_below(&w, 12)]; op.a = pool[sim_below(&w, pool.size())];
                    op.v = op.k == EMAIL ? (long long)sim_below(&w, 8) : op.k == LOCAL ? (long long)sim_below(&w, 4) : (long long)sim_below(&w, 2);
                } else { op.k = IS_EMAIL; op.a = pool[sim_below(&w, pool.size())]; }
                if (p_alloc && (op.k == IS_EMAIL || op.k == EMAIL) && sim_below(&w, 100) < p_alloc) op.mf = 1 + (int)sim_below(&w, 2);
                mine.push_back(op);
            }
            if (t == 0) proto = mine;
        }
        for (auto &o : mine) p.ops.push_back(o);
    }
    // process exit (one plan in ten): one thread calls exit() in the middle of its program while the others keep validating
    sim_rng er = sim_derive(rs, 6);
    if (sim_below(&er, 10) == 0) {
        int t = (int)sim_below(&er, (uint64_t)p.nthreads);
        vector<size_t> idx; for (size_t i = 0; i < p.ops.size(); i++) if (p.ops[i].t == t) idx.push_back(i);
        if (idx.size() >= 2) { size_t k = 2 + sim_below(&er, idx.size() - 1); Op ex; ex.t = t; ex.k = EXIT; p.ops.insert(p.ops.begin() + (long)(k < idx.size() ? idx[k] : idx.back() + 1), ex); }
    }
    // object handoff (one plan in four): an eav_t is prepared, and perhaps already used, by the main thread before the worker
    // starts, and / or read, used and freed by the main thread after the worker was joined.  Creation and join order
    // everything, so each object is still used by one thread at a time.
    sim_rng hr = sim_derive(rs, 4);
    if (sim_below(&hr, 4) == 0) {
        for (int t = 0; t < p.nthreads; t++) {
            vector<Op *> mine; for (auto &o : p.ops) if (o.t == t) mine.push_back(&o);
            size_t n = mine.size(), lead = 0;
            if (sim_below(&hr, 2)) { lead = sim_below(&hr, std::min<size_t>(n, 6) + 1); for (size_t i = 0; i < lead; i++) mine[i]->ph = 1; if (!lead) p.main_init.push_back(t); }
            if (sim_below(&hr, 2)) { size_t tail = sim_below(&hr, std::min<size_t>(n - lead, 3) + 1); for (size_t i = 0; i < tail; i++) mine[n - 1 - i]->ph = 2; if (!tail) p.main_free.push_back(t); }
        }
    }
    // relay (one plan in six): a program's object travels between live workers - each call is made by some thread, which
    // hands the object on when the call is complete (release / acquire).  The calls of all programs are merged at random so
    // that the threads do not simply queue up behind program 0.
    sim_rng rr = sim_derive(rs, 5);
    if (p.nthreads >= 2 && sim_below(&rr, 6) == 0) {
        vector<vector<Op>> q(p.nthreads); for (auto &o : p.ops) q[o.t].push_back(o);
        for (int t = 0; t < p.nthreads; t++) {
            if (sim_below(&rr, 3) == 0) continue;
            int cur = t; unsigned den = 2 + (unsigned)sim_below(&rr, 6);
            for (auto &o : q[t]) { if (sim_below(&rr, den) == 0) cur = (int)sim_below(&rr, (uint64_t)p.nthreads); o.x = cur; }
        }
        vector<size_t> at(p.nthreads, 0); vector<int> live; for (int t = 0; t < p.nthreads; t++) if (!q[t].empty()) live.push_back(t);
        p.ops.clear();
        while (!live.empty()) { size_t k = sim_below(&rr, live.size()); int t = live[k]; p.ops.push_back(q[t][at[t]++]); if (at[t] == q[t].size()) live.erase(live.begin() + (long)k); }
    }
    p.sched_seed = sim_next(&s);
    if (cfg == "pct") { p.policy = 3; p.depth = 1 + (int)sim_below(&s, 4); }
    else if (cfg == "rr") { p.policy = 2; static const uint64_t Q[] = { 1, 2, 5, 17 }; p.quantum = Q[sim_below(&s, 4)]; }
    else if (cfg == "random") { p.policy = 1; static const uint64_t D[] = { 2, 4, 16, 64, 256 }; p.den = D[sim_below(&s, 5)]; }
    else { // swarm over strategies
        unsigned k = (unsigned)sim_below(&s, 12);
        if (k >= 10) { p.policy = 4; static const uint64_t D[] = { 16, 64, 256 }; p.den = D[sim_below(&s, 3)]; }
        else if (k < 4) { p.policy = 1; static const uint64_t D[] = { 2, 4, 16, 64, 256 }; p.den = D[sim_below(&s, 5)]; }
        else if (k < 7) { p.policy = 3; p.depth = 1 + (int)sim_below(&s, 4); }
        else { p.policy = 2; static const uint64_t Q[] = { 1, 2, 5, 17 }; p.quantum = Q[sim_below(&s, 4)]; }
    }
    return p;
}

// ------------------------------------------------------------------ main
static void write_hashes(const char *path) {
    if (!path || !*path) return;
    FILE *f = fopen(path, "wb"); if (!f) return;
    for (uint64_t x : ST.plan_hashes) { uint64_t v = x & ~1ULL; fwrite(&v, 8, 1, f); }
    for (uint64_t x : ST.nontrivial) { uint64_t v = x | 1ULL; fwrite(&v, 8, 1, f); }
    fclose(f);
}
static void write_interleavings(const char *path) {
    if (!path || !*path) return;
    FILE *f = fopen(path, "wb"); if (!f) return;
    for (uint64_t x : ST.interleavings) fwrite(&x, 8, 1, f);
    fclose(f);
}
static sj::Value stats_json() {
    sj::Value j = sj::Value::object();
    j.set("plans", ST.plans); j.set("steps", ST.steps); j.set("logged_events", ST.events); j.set("context_switches", ST.ctx_switches); j.set("sequential_steps", ST.seq_steps);
    j.set("ops", ST.ops); j.set("outcome_comparisons", ST.outcome_cmp); j.set("write_shared_locations", ST.write_shared);
    j.set("plans_with_exit_while_others_run", ST.exit_plans); j.set("library_exit_handlers_run", ST.exit_handlers_run);
    j.set("library_constructors", (long long)rt::library_constructors()); j.set("library_exit_handlers_now", (long long)rt::library_exit_handlers());
    j.set("conflict_discovery", g_conf_done ? "done" : "not run"); j.set("max_labels_writing_library_statics", (long long)g_conf_labels_writing); j.set("max_static_locations_shared_by_labels", (long long)g_conf_locations); j.set("max_conflict_pairs_explored", (long long)(g_conf.size() + g_conf_addr.size()));
    j.set("relay_plans", ST.relay_plans); j.set("objects_handed_between_live_workers", ST.relay_handovers);
    j.set("handoff_plans", ST.handoff_plans); j.set("calls_by_main_before_start", ST.calls_by_main_before_start); j.set("calls_by_main_after_join", ST.calls_by_main_after_join);
    j.set("max_worker_stack_bytes_used", ST.stack_used_max);
    j.set("alloc_faults_attached", ST.alloc_faults_attached); j.set("programs_not_comparable_after_alloc_fault", ST.alloc_fault_not_comparable); j.set("calls_aborted_inside_library", ST.aborted_calls);
    j.set("sync_ops", ST.sync_ops); j.set("atomic_ops", ST.atomic_ops); j.set("spin_yields", ST.spin_yields); j.set("sem_wait_interrupted_by_signal", ST.sem_eintr); j.set("hidden_state_libc_calls", ST.pseudo_writes);
    j.set("plans_where_library_statics_changed", ST.globals_dirty_after_seq); j.set("racing_pairs_seen", ST.races_seen);
    j.set("library_writable_static_bytes", (long long)rt::library_writable_bytes());
    j.set("runs_inconclusive_shadow_table_full", ST.inconclusive_shadow_overflow);
    sj::Value th = sj::Value::object(); for (int i = 1; i < rt::MAXT; i++) if (ST.threads_hist[i]) th.set(std::to_string(i), ST.threads_hist[i]); j.set("plans_by_threads", th);
    sj::Value ph = sj::Value::object(); const char *pn[5] = { "replay", "random", "round_robin", "pct", "targeted" }; for (int i = 0; i < 5; i++) ph.set(pn[i], ST.policy_hist[i]); j.set("plans_by_strategy", ph);
    sj::Value k = sj::Value::object(); for (int i = 0; i < NKINDS; i++) k.set(KNAME[i], ST.kind[i]); j.set("ops_by_kind", k);
    j.set("distinct_interleavings_this_worker", (long long)ST.interleavings.size());
    return j;
}
static const char *arg(int argc, char **argv, const char *name, const char *def) { for (int i = 1; i + 1 < argc; i++) if (!strcmp(argv[i], name)) return argv[i + 1]; return def; }
static bool flag(int argc, char **argv, const char *name) { for (int i = 1; i < argc; i++) if (!strcmp(argv[i], name)) return true; return false; }

int main(int argc, char **argv) {
    if (argc < 2) { fprintf(stderr, "usage: sched gen|run|exec ...\n"); return 64; }
    string mode = argv[1];
    g_repo = arg(argc, argv, "--repo", getenv("VERIF_REPO") ? getenv("VERIF_REPO") : "/repo");
    setvbuf(stdout, nullptr, _IOLBF, 0);
    int cpu = atoi(arg(argc, argv, "--cpu", "-1"));
    if (cpu >= 0) { cpu_set_t cs; CPU_ZERO(&cs); CPU_SET(cpu % (int)sysconf(_SC_NPROCESSORS_ONLN), &cs); sched_setaffinity(0, sizeof cs, &cs); }
    rt::init();
    rt::set_abort_hook(on_abort);
    string cfg = arg(argc, argv, "--cfg", "swarm");
    uint64_t seed = strtoull(arg(argc, argv, "--seed", "20261001"), nullptr, 10);
    if (mode == "exec") {
        sj::Value j = sj::parse(sj::read_file(arg(argc, argv, "--replay", "")));
        bool log = flag(argc, argv, "--log");
        vector<Plan> ps; const sj::Value *plans = j.get("plans");
        if (plans) for (auto &e : plans->a) ps.push_back(plan_from_json(e)); else ps.push_back(plan_from_json(j));
        int bad = 0;
        for (size_t i = 0; i < ps.size(); i++) {
            RunOut ro; printf("B %zu\n", i);
            run_plan(ps[i], log, ro);
            if (log) for (auto &l : ro.log) printf("L %zu %s\n", i, sj::dump(sj::Value::str(l)).c_str());
            if (ro.viols.empty()) printf("R %zu ok %016llx %016llx\n", i, (unsigned long long)ro.h, (unsigned long long)ro.h);
            else { bad++; printf("V %zu %016llx %s | %s\n", i, (unsigned long long)ro.h, ro.viols[0].cls.c_str(), sj::dump(sj::Value::str(ro.viols[0].detail)).c_str()); }
        }
        return bad ? 1 : 0;
    }
    build_pool();
    if (mode == "gen") { Plan p = gen_plan(cfg, seed, strtoll(arg(argc, argv, "--index", "0"), nullptr, 10)); printf("%s\n", sj::dump(plan_to_json(p)).c_str()); return 0; }
    if (mode == "run") {
        long long start = strtoll(arg(argc, argv, "--start", "0"), nullptr, 10), stride = strtoll(arg(argc, argv, "--stride", "1"), nullptr, 10);
        long long count = strtoll(arg(argc, argv, "--count", "100"), nullptr, 10);
        double secs = atof(arg(argc, argv, "--secs", "0"));
        bool twice = flag(argc, argv, "--twice"), samples = flag(argc, argv, "--samples");
        auto t0 = std::chrono::steady_clock::now(); long long done = 0;
        for (long long n = 0; n < count; n++) {
            long long idx = start + n * stride;
            if (secs > 0 && (n & 7) == 0 && std::chrono::duration<double>(std::chrono::steady_clock::now() - t0).count() > secs) break;
            Plan p = gen_plan(cfg, seed, idx);
            printf("B %lld\n", idx);
            RunOut ro; run_plan(p, false, ro); done++;
            // the executed schedule, explicit: this is what replays
            Plan q = p; q.has_switches = true; q.switches = ro.switches;
            if (ro.viols.empty()) {
                printf("R %lld ok %016llx %016llx\n", idx, (unsigned long long)ro.h, (unsigned long long)ro.h);
                if (twice) {
                    RunOut r2; run_plan(q, false, r2, false);       // replay from the recorded switch list
                    RunOut r3; run_plan(p, false, r3, false);       // and again from the seed
                    // the PLAN line differs (policy) between p and q: compare the RUN lines through the interleaving-bearing hash of r3 only
                    if (r3.h != ro.h || r2.h != ro.h || !r2.viols.empty() || !r3.viols.empty() || r2.switches.size() != ro.switches.size()) printf("N %lld %016llx %016llx %016llx sw=%zu/%zu\n", idx, (unsigned long long)ro.h, (unsigned long long)r3.h, (unsigned long long)r2.h, ro.switches.size(), r2.switches.size());
                    else printf("T %lld\n", idx);
                }
                if (samples && n < 2) printf("P %lld %s\n", idx, sj::dump(plan_to_json(q)).c_str());
            } else {
                printf("V %lld %016llx %s | %s\n", idx, (unsigned long long)ro.h, ro.viols[0].cls.c_str(), sj::dump(sj::Value::str(ro.viols[0].detail)).c_str());
                printf("P %lld %s\n", idx, sj::dump(plan_to_json(q)).c_str());
            }
        }
        write_hashes(arg(argc, argv, "--hashes-out", ""));
        write_interleavings(arg(argc, argv, "--interleavings-out", ""));
        printf("S %s\n", sj::dump(stats_json()).c_str());
        printf("D %lld\n", done);
        return 0;
    }
    return 64;
}

// Runtime for the C14 scheduler simulator: TSan-ABI callbacks, libc/pthread wrappers,
// a baton scheduler over real pthreads, and a vector-clock happens-before race
// detector.  Exactly one simulated thread runs at any time; every logged event is a
// scheduling point at which only the scheduler decides who continues.
#pragma once
#include <cstdint>
#include <cstddef>
#include <string>
#include <vector>

namespace rt {

// 16 simulated threads + the main thread by default; the "crowd" build (-DSIM_MAXT=321) runs up to 320 threads with a
// smaller shadow table (thread-count limits of home-made locks: 8-bit ticket counters and the like)
#ifndef SIM_MAXT
#define SIM_MAXT 17
#endif
#ifndef SIM_NCELL_LOG
#define SIM_NCELL_LOG 20
#endif
const int MAXT = SIM_MAXT;
const int MAIN_TID = SIM_MAXT - 1;

struct Race {
    std::string kind;           // write-write | read-write | write-read
    uintptr_t pc_a, pc_b;       // module-relative pcs: earlier access, later access
    int tid_a, tid_b;
    std::string where;          // description of the location
    std::string fn_a, fn_b;
};

struct Switch { uint64_t at; int to; int forced; };   // forced: taken because the running thread finished or blocked after step `at`

// policy 5: a script - run thread `tid` for n logged events (kind 0), for n completed operations (kind 1, see op_boundary) or
// until it ends (kind 2), then go on to the next entry; used for schedules that park one thread while another does a lot
struct ScriptStep { int tid; int kind; uint64_t n; };

struct Config {
    int nthreads = 2;
    // policy: 0 replay (explicit switches), 1 random(p = 1/den), 2 round-robin(q), 3 pct(depth)
    int policy = 1; uint64_t den = 16; uint64_t quantum = 2; int pct_depth = 2; uint64_t pct_est_steps = 1000;
    uint64_t sched_seed = 1;
    std::vector<Switch> replay;
    std::vector<ScriptStep> script;
    bool op_boundaries = false;         // operation boundaries are scheduling points (set for scripted plans and their replays alike)
    uint64_t step_budget = 2000000;
    int sig_rate = 0;                   // percent of blocking sem_wait() calls that a signal interrupts (-1/EINTR, semaphore not taken)
    bool keep_sync_state = false;       // the main thread already made library calls since reset_library_globals() (object handoff)
};

struct Result {
    std::vector<Switch> switches;       // context switches actually taken
    uint64_t steps = 0, events = 0, ctx_switches = 0;
    uint64_t interleaving_hash = 0;
    std::vector<Race> races;
    bool deadlock = false, budget_exceeded = false, shadow_overflow = false;
    uint64_t write_shared_locations = 0;   // bytes written by one thread and touched by another
    uint64_t sem_eintr = 0;             // blocking sem_wait() calls interrupted by a simulated signal
    uint64_t sync_ops = 0, atomic_ops = 0, pseudo_writes = 0, spin_yields = 0;
    std::string abort_what;
    size_t stack_used_max = 0; int stack_used_thread = -1;    // deepest stack use of a worker below its thread function (bytes; saturates at 256 KiB)
    std::string bad_free;               // free()/realloc() of a pointer into some thread's stack / thread-local block
};

void init();                                        // once per process (maps, pristine snapshot)
void reset_library_globals();                       // a new simulated process: link-time image of libeav's writable statics, then its constructors
size_t library_writable_bytes();
bool library_globals_dirty();                       // differ from what they were when the simulated process started?
size_t library_constructors();                      // entries in the library's (renamed) constructor table
size_t library_exit_handlers();                     // destructor table entries + atexit/on_exit handlers registered so far
size_t run_library_exit();                          // what exit() does to the library: handlers newest first, then destructors

typedef void (*thread_fn)(int tid, void *arg);
// run nthreads simulated threads to completion under the scheduler
void run_concurrent(const Config &cfg, thread_fn fn, void *arg, Result &out);

// allocation fault attached to the next library call of this thread: its k-th malloc/calloc returns NULL (0 = none)
void arm_alloc_fault(int k);
bool alloc_fault_fired();
bool alloc_fault_armed();
std::string alloc_fault_signature();       // of the fault armed last on this thread: fired or not, sizes requested up to it
// run fn(arg) on a new OS thread and wait for it: the main thread of one simulated process (fresh thread-local storage)
void on_fresh_thread(void (*fn)(void *), void *arg);
// run fn(tid, arg) on the calling (main) thread in sequential mode; returns false if the library aborted / asserted
bool run_sequential(thread_fn fn, int tid, void *arg);
typedef void (*abort_hook)(int tid, void *arg);
void set_abort_hook(abort_hook h);          // called on the aborting thread after it unwound out of the library

// called by thread programs around library calls
void enter_sut();
void leave_sut();
bool thread_aborted();                              // this thread hit abort()/assert inside the library
// does p point into the stack / thread-local block of a simulated thread of the last run that has been joined? (-1: no)
int finished_thread_owning(const void *p);

// harness-level handoff between simulated threads: post(k) marks k done (release); wait(k) blocks the calling simulated
// thread until k was posted (acquire).  No-ops outside a concurrent run.
void op_boundary();                                 // the calling simulated thread has completed one operation of its program (policy 5 counts them)
void post(const void *k);
void wait(const void *k);

// conflict discovery (sequential mode): offsets into the library's static storage that were written or touched atomically
void record_static_accesses(bool on);
std::vector<uint64_t> take_recorded();

// sequential (unscheduled) mode for reference runs: callbacks count steps only
void begin_sequential();
uint64_t end_sequential();                          // returns number of would-be scheduling points

} // namespace rt

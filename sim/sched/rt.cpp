// See rt.hpp.  This file is NOT compiled with -fsanitize=thread: it *is* the runtime the
// instrumented libeav objects call into.
#define _GNU_SOURCE 1
#include "rt.hpp"
#include "../core/prng.h"
#include <atomic>
#include <cstdio>
#include <cstdlib>
#include <clocale>
#include <cstdarg>
#include <cstring>
#include <csetjmp>
#include <cerrno>
#include <climits>
#include <algorithm>
#include <pthread.h>
#include <semaphore.h>
#include <sched.h>
#include <unistd.h>
#include <link.h>
#include <dlfcn.h>
#include <time.h>
#include <sys/syscall.h>
#include <sys/mman.h>
#include <linux/futex.h>

extern "C" {
void *__real_malloc(size_t); void __real_free(void *); void *__real_calloc(size_t, size_t); void *__real_realloc(void *, size_t);
char *__real_strdup(const char *); char *__real_strndup(const char *, size_t);
size_t __real_strlen(const char *); char *__real_strchr(const char *, int); char *__real_strrchr(const char *, int);
size_t __real_strspn(const char *, const char *); size_t __real_strcspn(const char *, const char *);
int __real_strncasecmp(const char *, const char *, size_t); int __real_strcasecmp(const char *, const char *);
int __real_strcmp(const char *, const char *); int __real_strncmp(const char *, const char *, size_t);
void *__real_memcpy(void *, const void *, size_t); void *__real_memmove(void *, const void *, size_t);
void *__real_memset(void *, int, size_t); int __real_memcmp(const void *, const void *, size_t); void *__real_memchr(const void *, int, size_t);
char *__real_strcpy(char *, const char *); char *__real_strncpy(char *, const char *, size_t);
char *__real_strstr(const char *, const char *);
int __real_idn2_to_ascii_8z(const char *, char **, int);
int __real_vsnprintf(char *, size_t, const char *, va_list); int __real_vsprintf(char *, const char *, va_list);
char *__real_strcat(char *, const char *); char *__real_strncat(char *, const char *, size_t); char *__real_stpcpy(char *, const char *);
char *__real_strtok_r(char *, const char *, char **); char *__real_strsep(char **, const char *);
char *__real_strtok(char *, const char *); char *__real_strerror(int); int __real_rand(void); void __real_srand(unsigned);
char *__real_setlocale(int, const char *); char *__real_getenv(const char *);
int __real_setenv(const char *, const char *, int); int __real_unsetenv(const char *); int __real_putenv(char *); int __real_clearenv(void);
extern char __start_eavdata[] __attribute__((weak)); extern char __stop_eavdata[] __attribute__((weak));
extern char __start_eavbss[] __attribute__((weak)); extern char __stop_eavbss[] __attribute__((weak));
}

namespace rt {

// ------------------------------------------------------------------ futex baton
static int futex(std::atomic<int> *w, int op, int val, const struct timespec *ts) {
    return (int)syscall(SYS_futex, (int *)w, op, val, ts, nullptr, 0);
}
static void wake(std::atomic<int> *w) { w->store(1, std::memory_order_release); futex(w, FUTEX_WAKE_PRIVATE, 1, nullptr); }
static bool wait_on(std::atomic<int> *w, int timeout_s) {
    struct timespec ts = { timeout_s, 0 };
    for (;;) {
        int v = w->load(std::memory_order_acquire);
        if (v != 0) { w->store(0, std::memory_order_relaxed); return true; }
        int r = futex(w, FUTEX_WAIT_PRIVATE, 0, timeout_s ? &ts : nullptr);
        if (r == -1 && errno == ETIMEDOUT) return false;
    }
}

// ------------------------------------------------------------------ state
enum { ST_NEW = 0, ST_RUNNABLE, ST_BLOCKED, ST_FINISHED };
struct Th {
    pthread_t th; std::atomic<int> go{ 0 }; int state = ST_NEW;
    uintptr_t stack_lo = 0, stack_hi = 0; const void *blocked_on = nullptr;
    uintptr_t own_hi = 0;       // accesses in [stack_lo, own_hi) are the thread's own frames and are not events; above lie the caller of the thread function and the thread-local block, whose addresses can escape to other threads
    jmp_buf abort_jmp; bool abort_armed = false; bool aborted = false;
    long prio = 0; uintptr_t frames[8]; int depth = 0;
};
static Th TH[MAXT];
static thread_local int t_tid = -1;
static thread_local int t_in_sut = 0;
static thread_local int t_in_rt = 0;        // inside a runtime callback: libc calls made by the runtime itself are not events
struct RtGuard { RtGuard() { t_in_rt++; } ~RtGuard() { t_in_rt--; } };
static std::atomic<int> main_go{ 0 };
static int g_mode = 0;                  // 0 off, 1 sequential (count only), 2 concurrent
static int g_cur = -1, g_nthreads = 0;
static uint64_t g_step = 0, g_seq_steps = 0;
static size_t g_script_i = 0; static uint64_t g_script_n = 0; static bool g_script_op_done = false;
static const Config *g_cfg = nullptr;
static uint64_t g_sem_blocks = 0;     // blocking sem_wait() calls of this run so far
static Result *g_res = nullptr;
static sim_rng g_srng;
static size_t g_replay_i = 0;
static uint64_t g_quantum_left = 0;
static std::vector<uint64_t> g_pct_points;
static long g_pct_low = -1;
static thread_fn g_fn = nullptr; static void *g_arg = nullptr;
static uintptr_t g_base = 0;
static bool g_stop_all = false;
static abort_hook g_abort_hook = nullptr;
static bool g_hot = false;              // the event at this scheduling point touches library static storage or is an atomic/sync op

// vector clocks
static uint32_t VC[MAXT][MAXT];
static void vc_join(uint32_t *dst, const uint32_t *src) { for (int i = 0; i < MAXT; i++) if (src[i] > dst[i]) dst[i] = src[i]; }

// sync objects (mutex / once / atomic location / rwlock), keyed by address
struct SyncObj { const void *key; uint32_t vc[MAXT]; int owner; int once_state; int readers; long sem; };
static std::vector<SyncObj> g_sync;
static SyncObj &sync_obj(const void *k) {
    for (auto &s : g_sync) if (s.key == k) return s;
    SyncObj s; memset(&s, 0, sizeof s); s.key = k; s.owner = -1; g_sync.push_back(s); return g_sync.back();
}

// read-only mappings
struct Range { uintptr_t lo, hi; };
static std::vector<Range> g_ro;
static bool is_readonly(uintptr_t a) {
    size_t lo = 0, hi = g_ro.size();
    while (lo < hi) { size_t m = (lo + hi) / 2; if (a < g_ro[m].lo) hi = m; else if (a >= g_ro[m].hi) lo = m + 1; else return true; }
    return false;
}

// named ranges & heap blocks (for reports and shadow clearing)
struct Block { uintptr_t lo; size_t n; uint64_t id; int tid; };
static std::vector<Block> g_blocks; static uint64_t g_block_id = 0;
struct Named { uintptr_t lo, hi; std::string name; };
static std::vector<Named> g_named;

// ------------------------------------------------------------------ shadow memory
struct Cell { uintptr_t addr; uint32_t gen; int16_t wt; uint8_t shared; uint32_t wclk; uint32_t wpc; uint32_t rclk[MAXT]; uint32_t rpc[MAXT]; };
static const size_t NCELL = (size_t)1 << SIM_NCELL_LOG;
static Cell *g_cells = nullptr; static uint32_t g_gen = 1; static size_t g_cells_used = 0;
static Cell *cell_for(uintptr_t a, bool create) {
    size_t h = (size_t)(sim_mix64((uint64_t)a) & (NCELL - 1));
    for (size_t i = 0; i < NCELL; i++) {
        Cell &c = g_cells[(h + i) & (NCELL - 1)];
        if (c.gen != g_gen) {
            if (!create) return nullptr;
            if (g_cells_used > NCELL * 3 / 4) { if (g_res) g_res->shadow_overflow = true; return nullptr; }
            memset(&c, 0, sizeof c); c.addr = a; c.gen = g_gen; c.wt = -1; g_cells_used++; return &c;
        }
        if (c.addr == a) return &c;
    }
    return nullptr;
}
static void shadow_clear_range(uintptr_t lo, size_t n) {
    for (size_t i = 0; i < n; i++) { Cell *c = cell_for(lo + i, false); if (c) { c->wt = -1; memset(c->rclk, 0, sizeof c->rclk); c->shared = 0; } }
}

static char g_pseudo[64];
static std::string describe(uintptr_t a) {
    char b[200];
    if (a >= (uintptr_t)g_pseudo && a < (uintptr_t)g_pseudo + sizeof g_pseudo) {
        static const char *nm[] = { "strtok()", "strerror()", "rand()/srand()", "setlocale()", "getenv()/setenv() (the process environment)",
                                    "hcreate()/hsearch()/hdestroy() (the one process-wide hash table)", "localtime()/gmtime()/asctime()/ctime() (their static result)", "random()/srandom()/drand48()/lrand48()" };
        size_t k = (size_t)(a - (uintptr_t)g_pseudo);
        snprintf(b, sizeof b, "the hidden process-global state of libc's %s", k < 8 ? nm[k] : "?"); return b;
    }
    if (__start_eavdata && a >= (uintptr_t)__start_eavdata && a < (uintptr_t)__stop_eavdata) { snprintf(b, sizeof b, "libeav static storage (.data +%zu)", (size_t)(a - (uintptr_t)__start_eavdata)); return b; }
    if (__start_eavbss && a >= (uintptr_t)__start_eavbss && a < (uintptr_t)__stop_eavbss) { snprintf(b, sizeof b, "libeav static storage (.bss +%zu)", (size_t)(a - (uintptr_t)__start_eavbss)); return b; }
    for (auto &n : g_named) if (a >= n.lo && a < n.hi) { snprintf(b, sizeof b, "%s +%zu", n.name.c_str(), (size_t)(a - n.lo)); return b; }
    for (auto &k : g_blocks) if (a >= k.lo && a < k.lo + k.n) { snprintf(b, sizeof b, "heap block #%llu (%zu bytes, allocated by thread %d) +%zu", (unsigned long long)k.id, k.n, k.tid, (size_t)(a - k.lo)); return b; }
    for (int t = 0; t < MAXT; t++) if (TH[t].stack_lo && a >= TH[t].stack_lo && a < TH[t].stack_hi) { snprintf(b, sizeof b, a >= TH[t].own_hi ? "thread-local storage (or start frame) of thread %d" : "stack of thread %d", t); return b; }
    Dl_info di;
    if (dladdr((void *)a, &di) && di.dli_sname) { snprintf(b, sizeof b, "global %s +%zu", di.dli_sname, (size_t)(a - (uintptr_t)di.dli_saddr)); return b; }
    return "memory outside any known block";
}
static std::string fn_of(uintptr_t rel) {
    Dl_info di; char b[160];
    if (dladdr((void *)(rel + g_base), &di) && di.dli_sname) { snprintf(b, sizeof b, "%s+0x%zx", di.dli_sname, (size_t)(rel + g_base - (uintptr_t)di.dli_saddr)); return b; }
    snprintf(b, sizeof b, "pc 0x%zx", (size_t)rel); return b;
}

static void report_race(const char *kind, int ta, uint32_t pca, int tb, uint32_t pcb, uintptr_t addr) {
    if (!g_res) return;
    for (auto &r : g_res->races) if (r.pc_a == pca && r.pc_b == pcb && r.kind == kind) return;
    if (g_res->races.size() >= 8) return;
    Race r; r.kind = kind; r.pc_a = pca; r.pc_b = pcb; r.tid_a = ta; r.tid_b = tb; r.where = describe(addr);
    r.fn_a = fn_of(pca); r.fn_b = fn_of(pcb);
    g_res->races.push_back(r);
}

static void check_byte(int t, uintptr_t a, bool is_write, uint32_t pc) {
    Cell *c = cell_for(a, true);
    if (!c) return;
    uint32_t *vc = VC[t];
    if (c->wt >= 0 && c->wt != t) {
        if (!c->shared) { c->shared = 1; g_res->write_shared_locations++; }
        if (c->wclk > vc[(int)c->wt]) report_race(is_write ? "write-write" : "write-read", c->wt, c->wpc, t, pc, a);
    }
    if (is_write) {
        for (int u = 0; u < MAXT; u++) if (u != t && c->rclk[u]) {
            if (!c->shared) { c->shared = 1; g_res->write_shared_locations++; }
            if (c->rclk[u] > vc[u]) report_race("read-write", u, c->rpc[u], t, pc, a);
        }
        c->wt = (int16_t)t; c->wclk = vc[t]; c->wpc = pc;
    } else { c->rclk[t] = vc[t]; c->rpc[t] = pc; }
}

// ------------------------------------------------------------------ scheduler
static int runnable_count() { int n = 0; for (int i = 0; i < g_nthreads; i++) if (TH[i].state == ST_RUNNABLE) n++; return n; }

static int pick_other(int me, bool forced) {
    int cand[MAXT], n = 0;
    for (int i = 0; i < g_nthreads; i++) if (i != me && TH[i].state == ST_RUNNABLE) cand[n++] = i;
    if (n == 0) return forced ? -1 : me;
    const Config &c = *g_cfg;
    switch (c.policy) {
    case 0: {
        while (g_replay_i < c.replay.size() && (c.replay[g_replay_i].at < g_step || (forced && c.replay[g_replay_i].at == g_step && !c.replay[g_replay_i].forced))) g_replay_i++;
        if (g_replay_i < c.replay.size() && c.replay[g_replay_i].at == g_step && (c.replay[g_replay_i].forced != 0) == forced) {
            int to = c.replay[g_replay_i].to; g_replay_i++;
            if (to >= 0 && to < g_nthreads && to != me && TH[to].state == ST_RUNNABLE) return to;
        }
        if (forced) return cand[0];
        return me;
    }
    case 2:
        if (forced || g_quantum_left == 0) {
            g_quantum_left = c.quantum;
            for (int k = 1; k <= g_nthreads; k++) { int j = (me + k) % g_nthreads; if (j != me && TH[j].state == ST_RUNNABLE) return j; }
            return forced ? -1 : me;
        }
        g_quantum_left--; return me;
    case 3: {
        // PCT: at a change point the running thread drops below everyone
        if (!forced && std::binary_search(g_pct_points.begin(), g_pct_points.end(), g_step)) TH[me].prio = g_pct_low--;
        int best = forced ? -1 : me; long bp = forced ? LONG_MIN : TH[me].prio;
        for (int i = 0; i < n; i++) if (TH[cand[i]].prio > bp) { bp = TH[cand[i]].prio; best = cand[i]; }
        return best;
    }
    case 5: {   // scripted
        auto runnable = [&](int t) { return t >= 0 && t < g_nthreads && t != me && TH[t].state == ST_RUNNABLE; };
        auto advance = [&]() -> int {      // next script entry whose thread can run; the running thread may continue if it is its own turn again
            while (++g_script_i < c.script.size()) { g_script_n = 0; int t = c.script[g_script_i].tid; if (t == me && !forced) return me; if (runnable(t)) return t; }
            return forced ? cand[0] : me;
        };
        if (forced) return advance();
        if (g_script_i >= c.script.size()) return me;
        const ScriptStep &st = c.script[g_script_i];
        if (st.tid != me) return runnable(st.tid) ? st.tid : me;
        if (st.kind == 0 && ++g_script_n >= st.n) return advance();
        if (st.kind == 1 && g_script_op_done) { g_script_op_done = false; if (++g_script_n >= st.n) return advance(); }
        return me;
    }
    case 4:     // targeted: switch often around library statics / atomics / sync ops, rarely elsewhere
        if (forced || sim_below(&g_srng, g_hot ? 2 : c.den) == 0) return cand[sim_below(&g_srng, (uint64_t)n)];
        return me;
    default:
        if (forced || sim_below(&g_srng, c.den) == 0) return cand[sim_below(&g_srng, (uint64_t)n)];
        return me;
    }
}

static void hand_to(int me, int next, bool wait_back, int forced = 0) {
    g_res->switches.push_back(Switch{ g_step, next, forced });
    g_res->ctx_switches++;
    g_cur = next;
    wake(&TH[next].go);
    if (wait_back) { wait_on(&TH[me].go, 0); }
}

// a scheduling point reached by the baton holder
// A thread that keeps hitting atomic / sync events at one and the same site is spin-waiting for somebody else: a strict
// priority (PCT) or long-quantum policy would let it spin for ever, which is an artefact of the policy, not a property of
// the code.  After 48 such events in a row it yields to the next runnable thread.
static thread_local uintptr_t t_spin_pc = 0; static thread_local int t_spin_n = 0;
static bool g_spin_event = false; static uintptr_t g_spin_pc = 0; static bool g_yield_now = false;
static void sched_point() {
    int me = t_tid;
    g_step++;
    if (g_spin_event && g_spin_pc == t_spin_pc) t_spin_n++; else { t_spin_n = 0; t_spin_pc = g_spin_event ? g_spin_pc : 0; }
    if (t_spin_n >= 48 || g_yield_now) {
        t_spin_n = 0; g_yield_now = false;
        if (g_cfg->policy == 3) TH[me].prio = g_pct_low--;      // under PCT a waiting thread drops below everybody, or it would be re-picked at once
        int best = -1; long bp = LONG_MIN;
        // replaying a recorded schedule: the yield went where the record says (the original policy may have been PCT)
        if (g_cfg->policy == 0) { int to = pick_other(me, false); if (to != me && to >= 0) best = to; }
        if (best < 0) for (int k = 1; k <= g_nthreads; k++) {
            int j = (me + k) % g_nthreads;
            if (j == me || TH[j].state != ST_RUNNABLE) continue;
            if (g_cfg->policy != 3) { best = j; break; }
            if (TH[j].prio > bp) { bp = TH[j].prio; best = j; }
        }
        if (best >= 0) { g_res->spin_yields++; hand_to(me, best, true); return; }
    }
    if (g_step > g_cfg->step_budget) {
        if (!g_res->budget_exceeded) g_res->budget_exceeded = true;
        g_stop_all = true;
    }
    if (g_stop_all && TH[me].abort_armed) { TH[me].aborted = true; longjmp(TH[me].abort_jmp, 9); }
    int next = pick_other(me, false);
    if (next != me && next >= 0) hand_to(me, next, true);
}

// block the current thread until `pred` holds; returns false on deadlock
static void block_on(const void *obj) {
    int me = t_tid;
    TH[me].state = ST_BLOCKED; TH[me].blocked_on = obj;
    int next = pick_other(me, true);
    if (next < 0) {         // nobody can run: deadlock
        g_res->deadlock = true; g_stop_all = true;
        TH[me].state = ST_RUNNABLE;
        if (TH[me].abort_armed) { TH[me].aborted = true; longjmp(TH[me].abort_jmp, 9); }
        return;
    }
    hand_to(me, next, true, 1);
}
static void unblock_waiters(const void *obj) {
    for (int i = 0; i < g_nthreads; i++) if (TH[i].state == ST_BLOCKED && TH[i].blocked_on == obj) { TH[i].state = ST_RUNNABLE; TH[i].blocked_on = nullptr; }
}
// harness-level "this is done, you may take the object" flag: a release by the poster, an acquire by whoever waited
void op_boundary() {
    if (g_mode != 2 || t_tid < 0 || !g_cfg || !g_cfg->op_boundaries) return;
    RtGuard rg_;
    g_script_op_done = true;
    sched_point();
    g_script_op_done = false;
}
void post(const void *k) {
    if (g_mode != 2 || t_tid < 0) return;
    RtGuard rg_;
    SyncObj &s = sync_obj(k); s.once_state = 2; vc_join(s.vc, VC[t_tid]); VC[t_tid][t_tid]++;
    unblock_waiters(k);
}
void wait(const void *k) {
    if (g_mode != 2 || t_tid < 0) return;
    RtGuard rg_;
    while (sync_obj(k).once_state != 2) { block_on(k); if (g_stop_all) return; }
    vc_join(VC[t_tid], sync_obj(k).vc);
}

// A read that repeats the previous event of the same thread exactly (same bytes, same site, nothing in between - not
// even a scheduling point of another thread) adds nothing: the detector's state and the set of reachable schedules
// are the same.  This collapses table-scan loops (is_tld compares the same input string 1591 times) into one event.
static thread_local uintptr_t t_last_a = 0; static thread_local size_t t_last_n = 0; static thread_local uintptr_t t_last_pc = 0; static thread_local uint64_t t_last_step = ~0ULL;
static inline bool repeat_read(uintptr_t a, size_t n, bool is_write, uintptr_t pc) {
    uint64_t now = g_mode == 1 ? g_seq_steps : g_step;
    if (!is_write && a == t_last_a && n == t_last_n && pc == t_last_pc && now == t_last_step) return true;
    return false;
}
static inline void note_event(uintptr_t a, size_t n, bool is_write, uintptr_t pc) {
    uint64_t now = g_mode == 1 ? g_seq_steps : g_step;
    if (is_write) { t_last_a = 0; t_last_step = ~0ULL; } else { t_last_a = a; t_last_n = n; t_last_pc = pc; t_last_step = now; }
}
static inline bool active() { return t_tid >= 0 && t_in_sut > 0 && g_mode != 0 && t_in_rt == 0; }

static void ev_hash(uint32_t pc) {
    uint64_t v = ((uint64_t)(unsigned)t_tid << 32) | pc;
    g_res->interleaving_hash = sim_fnv1a(g_res->interleaving_hash, &v, sizeof v);
    g_res->events++;
}

// conflict discovery: which bytes of the library's own static storage does a call write (or touch atomically)?  Recorded in
// sequential mode only; two inputs that touch the same bytes are candidates for a focused concurrent exploration.
static bool g_rec_on = false; static std::vector<uint64_t> g_rec;
static inline void rec_static(uintptr_t a) {
    if (!g_rec_on) return;
    if (__start_eavdata && a >= (uintptr_t)__start_eavdata && a < (uintptr_t)__stop_eavdata) g_rec.push_back((uint64_t)(a - (uintptr_t)__start_eavdata));
    else if (__start_eavbss && a >= (uintptr_t)__start_eavbss && a < (uintptr_t)__stop_eavbss) g_rec.push_back((1ULL << 40) | (uint64_t)(a - (uintptr_t)__start_eavbss));
}
void record_static_accesses(bool on) { g_rec_on = on; g_rec.clear(); }
std::vector<uint64_t> take_recorded() { std::vector<uint64_t> r; r.swap(g_rec); std::sort(r.begin(), r.end()); r.erase(std::unique(r.begin(), r.end()), r.end()); return r; }

static void on_access(uintptr_t a, size_t n, bool is_write, uintptr_t pc_abs) {
    if (!active()) return;
    RtGuard rg_;
    Th &me = TH[t_tid];
    if (a >= me.stack_lo && a < me.own_hi) return;          // own stack frames
    if (is_readonly(a)) return;
    if (repeat_read(a, n, is_write, pc_abs)) return;
    if (g_mode == 1) { g_seq_steps++; if (is_write) rec_static(a); note_event(a, n, is_write, pc_abs); return; }
    uint32_t pc = (uint32_t)(pc_abs - g_base);
    g_hot = (__start_eavdata && a >= (uintptr_t)__start_eavdata && a < (uintptr_t)__stop_eavdata) || (__start_eavbss && a >= (uintptr_t)__start_eavbss && a < (uintptr_t)__stop_eavbss);
    sched_point();
    g_hot = false;
    ev_hash(pc);
    for (size_t i = 0; i < n; i++) check_byte(t_tid, a + i, is_write, pc);
    note_event(a, n, is_write, pc_abs);
}

static void on_range(const void *p, size_t n, bool is_write, uintptr_t pc_abs) {
    if (!active() || n == 0) return;
    RtGuard rg_;
    uintptr_t a = (uintptr_t)p;
    Th &me = TH[t_tid];
    if (a >= me.stack_lo && a < me.own_hi) return;
    if (is_readonly(a)) return;
    if (repeat_read(a, n, is_write, pc_abs)) return;
    if (g_mode == 1) { g_seq_steps++; if (is_write) rec_static(a); note_event(a, n, is_write, pc_abs); return; }
    uint32_t pc = (uint32_t)(pc_abs - g_base);
    sched_point();
    ev_hash(pc);
    if (n > 65536) n = 65536;
    for (size_t i = 0; i < n; i++) check_byte(t_tid, a + i, is_write, pc);
    note_event(a, n, is_write, pc_abs);
}

static void on_plain_point(uintptr_t pc_abs) {      // scheduling point without a memory access
    if (!active()) return;
    RtGuard rg_;
    if (g_mode == 1) { g_seq_steps++; return; }
    sched_point();
    ev_hash((uint32_t)(pc_abs - g_base));
}

static void on_pseudo_write(int slot, uintptr_t pc_abs) {   // libc interface with hidden process-global state
    if (!active()) return;
    RtGuard rg_;
    if (g_mode == 1) { g_seq_steps++; return; }
    uint32_t pc = (uint32_t)(pc_abs - g_base);
    sched_point(); ev_hash(pc);
    g_res->pseudo_writes++;
    check_byte(t_tid, (uintptr_t)&g_pseudo[slot], true, pc);
}

// acquire+release on a sync object (atomics, mutex ops)
static void sync_acquire(const void *k) { vc_join(VC[t_tid], sync_obj(k).vc); }
static void sync_release(const void *k) { SyncObj &s = sync_obj(k); vc_join(s.vc, VC[t_tid]); VC[t_tid][t_tid]++; }

// ------------------------------------------------------------------ thread body
static void *thread_main(void *p) {
    int tid = (int)(intptr_t)p;
    t_tid = tid;
    pthread_attr_t at; void *sa = nullptr; size_t ss = 0;
    if (pthread_getattr_np(pthread_self(), &at) == 0) { pthread_attr_getstack(&at, &sa, &ss); pthread_attr_destroy(&at); }
    TH[tid].stack_lo = (uintptr_t)sa; TH[tid].stack_hi = (uintptr_t)sa + ss;
    TH[tid].own_hi = (uintptr_t)__builtin_frame_address(0);
    if (TH[tid].own_hi < TH[tid].stack_lo || TH[tid].own_hi > TH[tid].stack_hi) TH[tid].own_hi = TH[tid].stack_hi;
    wait_on(&TH[tid].go, 0);            // start barrier: first release comes from the scheduler
    TH[tid].abort_armed = true;
    // abort()/assert inside the library ends the call (and, for the harness, the program it belongs to); the thread then
    // goes on with whatever else it has to do - other threads may be waiting for it to hand objects on
    volatile bool again;
    do {
        int jc = setjmp(TH[tid].abort_jmp);
        if (jc == 0) { g_fn(tid, g_arg); again = false; }
        else { t_in_sut = 0; t_in_rt = 0; if (g_abort_hook) g_abort_hook(tid, g_arg); again = jc != 9 && !g_stop_all; }
    } while (again);
    TH[tid].abort_armed = false;
    t_in_sut = 0;
    TH[tid].state = ST_FINISHED;
    // pass the baton on
    int next = pick_other(tid, true);
    if (next >= 0) { g_res->switches.push_back(Switch{ g_step, next, 1 }); g_cur = next; wake(&TH[next].go); }
    else {
        bool blocked = false; for (int i = 0; i < g_nthreads; i++) if (TH[i].state == ST_BLOCKED) blocked = true;
        if (blocked) {      // everyone else is blocked for ever: deadlock; release them to unwind
            g_res->deadlock = true; g_stop_all = true;
            for (int i = 0; i < g_nthreads; i++) if (TH[i].state == ST_BLOCKED) { TH[i].state = ST_RUNNABLE; g_cur = i; wake(&TH[i].go); return nullptr; }
        }
        wake(&main_go);
    }
    return nullptr;
}

static int g_joined = 0;
int finished_thread_owning(const void *p) {
    uintptr_t a = (uintptr_t)p;
    for (int i = 0; i < g_joined && i < MAXT - 1; i++) if (TH[i].stack_lo && a >= TH[i].stack_lo && a < TH[i].stack_hi) return i;
    return -1;
}
static std::vector<std::pair<uintptr_t, uintptr_t>> g_main_tls;     // the main thread's thread-local blocks, per module
static int main_tls_cb(struct dl_phdr_info *info, size_t, void *) {
    if (!info->dlpi_tls_data) return 0;
    for (int i = 0; i < info->dlpi_phnum; i++) if (info->dlpi_phdr[i].p_type == PT_TLS) g_main_tls.push_back({ (uintptr_t)info->dlpi_tls_data, (uintptr_t)info->dlpi_tls_data + info->dlpi_phdr[i].p_memsz });
    return 0;
}
static int thread_memory_owner(const void *p) {     // any simulated thread's (or the main thread's) stack / TLS block
    uintptr_t a = (uintptr_t)p;
    for (auto &r : g_main_tls) if (a >= r.first && a < r.second) return MAIN_TID;
    for (int i = 0; i < MAXT; i++) if (TH[i].stack_lo && a >= TH[i].stack_lo && a < TH[i].stack_hi && (i == MAIN_TID || i < g_nthreads)) return i;
    return -1;
}

static void note_main_thread();
void run_concurrent(const Config &cfg, thread_fn fn, void *arg, Result &out) {
    g_joined = 0;
    note_main_thread();
    g_cfg = &cfg; g_res = &out; g_fn = fn; g_arg = arg; g_nthreads = cfg.nthreads;
    out.interleaving_hash = SIM_FNV_INIT;
    g_step = 0; g_replay_i = 0; g_quantum_left = cfg.quantum; g_stop_all = false; g_script_i = 0; g_script_n = 0; g_script_op_done = false;
    g_srng = sim_derive(cfg.sched_seed, 0x5c4ed); g_sem_blocks = 0;
    g_gen++; g_cells_used = 0;
    if (g_gen == 0) { memset(g_cells, 0, sizeof(Cell) * NCELL); g_gen = 1; }
    if (!cfg.keep_sync_state) g_sync.clear();
    g_blocks.clear();
    memset(VC, 0, sizeof VC);
    VC[MAIN_TID][MAIN_TID] = 1;
    g_pct_points.clear(); g_pct_low = -1;
    if (cfg.policy == 3) {
        sim_rng pr = sim_derive(cfg.sched_seed, 0x9c7);
        for (int i = 0; i < cfg.nthreads; i++) TH[i].prio = 1000 + (long)sim_below(&pr, 1000000);
        for (int d = 1; d < cfg.pct_depth; d++) g_pct_points.push_back(1 + sim_below(&pr, cfg.pct_est_steps ? cfg.pct_est_steps : 1));
        std::sort(g_pct_points.begin(), g_pct_points.end());
    }
    // worker stacks are the simulator's: 1 MiB each, the upper STACK_WATCH bytes painted before every run so that the deepest
    // byte a thread touched can be read off afterwards (how much stack the library needs on a thread is part of what a
    // caller with small thread stacks relies on)
    static char *stacks[MAXT]; const size_t STACK_SZ = 1u << 20, STACK_WATCH = 256u << 10;
    for (int i = 0; i < cfg.nthreads; i++) {
        if (!stacks[i]) { stacks[i] = (char *)mmap(nullptr, STACK_SZ, PROT_READ | PROT_WRITE, MAP_PRIVATE | MAP_ANONYMOUS | MAP_NORESERVE, -1, 0); if (stacks[i] == MAP_FAILED) stacks[i] = nullptr; }
        if (stacks[i]) __real_memset(stacks[i] + STACK_SZ - STACK_WATCH, 0xAB, STACK_WATCH);
    }
    for (int i = 0; i < cfg.nthreads; i++) {
        TH[i].state = ST_RUNNABLE; TH[i].go.store(0); TH[i].aborted = false; TH[i].blocked_on = nullptr; TH[i].depth = 0;
        // thread creation: child inherits the creator's clock
        memcpy(VC[i], VC[MAIN_TID], sizeof VC[i]); VC[i][i] = 1;
        pthread_attr_t at; pthread_attr_init(&at);
        if (stacks[i]) pthread_attr_setstack(&at, stacks[i], STACK_SZ); else pthread_attr_setstacksize(&at, STACK_SZ);
        pthread_create(&TH[i].th, &at, thread_main, (void *)(intptr_t)i);
        pthread_attr_destroy(&at);
    }
    VC[MAIN_TID][MAIN_TID]++;
    g_mode = 2;
    main_go.store(0);
    // the scheduler picks who starts
    int first = 0;
    if (cfg.policy == 0) { if (!cfg.replay.empty() && cfg.replay[0].at == 0 && cfg.replay[0].to < cfg.nthreads) { first = cfg.replay[0].to; g_replay_i = 1; } }
    else if (cfg.policy == 5) { first = (!cfg.script.empty() && cfg.script[0].tid < cfg.nthreads) ? cfg.script[0].tid : 0; }
    else if (cfg.policy == 3) { long bp = LONG_MIN; for (int i = 0; i < cfg.nthreads; i++) if (TH[i].prio > bp) { bp = TH[i].prio; first = i; } }
    else first = (int)sim_below(&g_srng, (uint64_t)cfg.nthreads);
    out.switches.push_back(Switch{ 0, first, 0 });
    g_cur = first;
    wake(&TH[first].go);
    for (;;) {      // a stalled baton holder (no scheduling point for 20 s of wall time) can only be an unmodelled blocking primitive
        uint64_t before = g_step;
        if (wait_on(&main_go, 20)) break;
        if (g_step == before) { fprintf(stderr, "WATCHDOG: baton holder %d stalled at step %llu\n", g_cur, (unsigned long long)g_step); _Exit(4); }
    }
    for (int i = 0; i < cfg.nthreads; i++) { pthread_join(TH[i].th, nullptr); vc_join(VC[MAIN_TID], VC[i]); }
    out.stack_used_max = 0; out.stack_used_thread = -1;
    for (int i = 0; i < cfg.nthreads; i++) if (stacks[i]) {
        // depth below the frame of the thread function (what lies above - thread descriptor, thread-local block, start frame - is glibc's)
        const unsigned char *lo = (const unsigned char *)stacks[i] + STACK_SZ - STACK_WATCH, *q = lo, *top = (const unsigned char *)TH[i].own_hi;
        if ((uintptr_t)top < (uintptr_t)lo || (uintptr_t)top > (uintptr_t)stacks[i] + STACK_SZ) continue;
        while (q < top && *q == 0xAB) q++;
        size_t used = (size_t)(top - q);
        if (used > out.stack_used_max) { out.stack_used_max = used; out.stack_used_thread = i; }
    }
    g_joined = cfg.nthreads;
    g_mode = 0;
    out.steps = g_step;
    for (int i = 0; i < cfg.nthreads; i++) if (TH[i].aborted && out.abort_what.empty()) out.abort_what = "thread " + std::to_string(i) + " stopped inside the library";
    g_res = nullptr; g_cfg = nullptr;
}

static thread_local int t_af_at = 0, t_af_n = 0; static thread_local bool t_af_fired = false;
static thread_local size_t t_af_sizes[4];
void arm_alloc_fault(int k) { t_af_at = k; t_af_n = 0; t_af_fired = false; }
bool alloc_fault_fired() { return t_af_fired; }
bool alloc_fault_armed() { return t_af_at > 0; }
// what the armed fault met: whether it fired and the sizes the library asked for up to there.  Two executions of a call are
// comparable under the fault only if this is the same in both (a record taken from a cache needs no allocation at all)
std::string alloc_fault_signature() {
    std::string s = t_af_fired ? "fired" : "not-fired";
    for (int i = 0; i < t_af_n && i < 4 && i < t_af_at; i++) s += (i ? "," : ":") + std::to_string(t_af_sizes[i]);
    return s;
}
void set_abort_hook(abort_hook h) { g_abort_hook = h; }
bool run_sequential(thread_fn fn, int tid, void *arg) {
    Th &me = TH[MAIN_TID];
    me.abort_armed = true; me.aborted = false;
    bool ok = true;
    if (setjmp(me.abort_jmp) == 0) fn(tid, arg); else { ok = false; t_in_sut = 0; t_in_rt = 0; if (g_abort_hook) g_abort_hook(tid, arg); }
    me.abort_armed = false;
    return ok;
}
void enter_sut() { t_in_sut++; }
void leave_sut() { if (t_in_sut > 0) t_in_sut--; }
bool thread_aborted() { return t_tid >= 0 && TH[t_tid].aborted; }

static Result g_seq_dummy;
// the calling OS thread is the simulated process's main thread from now on (its stack and thread-local blocks)
static pthread_t g_main_thread; static bool g_main_known = false;
static void note_main_thread() {
    if (g_main_known && pthread_equal(g_main_thread, pthread_self())) return;
    g_main_thread = pthread_self(); g_main_known = true;
    pthread_attr_t at; void *sa = nullptr; size_t ss = 0;
    if (pthread_getattr_np(pthread_self(), &at) == 0) { pthread_attr_getstack(&at, &sa, &ss); pthread_attr_destroy(&at); TH[MAIN_TID].stack_lo = (uintptr_t)sa; TH[MAIN_TID].stack_hi = (uintptr_t)sa + ss; TH[MAIN_TID].own_hi = TH[MAIN_TID].stack_hi; }
    g_main_tls.clear(); dl_iterate_phdr(main_tls_cb, nullptr);
}
void begin_sequential() {
    t_tid = MAIN_TID; g_mode = 1; g_seq_steps = 0; t_in_sut = 0;
    note_main_thread();
}
// every simulated process gets a main thread of its own (fresh thread-local storage): fn runs on a new OS thread
struct FreshArg { void (*fn)(void *); void *arg; };
static void *fresh_tramp(void *p) { FreshArg *a = (FreshArg *)p; a->fn(a->arg); t_tid = -1; t_in_sut = 0; return nullptr; }
void on_fresh_thread(void (*fn)(void *), void *arg) {
    FreshArg a{ fn, arg };
    pthread_attr_t at; pthread_attr_init(&at); pthread_attr_setstacksize(&at, 16u << 20);
    pthread_t th;
    if (pthread_create(&th, &at, fresh_tramp, &a) != 0) { pthread_attr_destroy(&at); fn(arg); return; }
    pthread_attr_destroy(&at);
    pthread_join(th, nullptr);
}
uint64_t end_sequential() { g_mode = 0; t_tid = -1; t_in_sut = 0; return g_seq_steps; }

// ------------------------------------------------------------------ library globals
static std::vector<char> g_pristine;
size_t library_writable_bytes() {
    size_t n = 0;
    if (__start_eavdata) n += (size_t)(__stop_eavdata - __start_eavdata);
    if (__start_eavbss) n += (size_t)(__stop_eavbss - __start_eavbss);
    return n;
}
// ---- process lifetime.  The library objects' constructor / destructor tables are renamed at build time (eavinit / eavfini),
// so the loader runs neither.  reset_library_globals() is "a new process": link-time image of the writable statics, then the
// constructors; run_library_exit() is what exit() does: atexit()/on_exit() handlers registered by the library, newest first,
// then the destructors.  Blocks the constructors allocated belong to the simulated process and go with it.
typedef void (*init_fn)(int, char **, char **);
typedef void (*fini_fn)(void);
extern "C" { extern init_fn __start_eavinit[] __attribute__((weak)); extern init_fn __stop_eavinit[] __attribute__((weak));
             extern fini_fn __start_eavfini[] __attribute__((weak)); extern fini_fn __stop_eavfini[] __attribute__((weak)); }
struct ExitHandler { void (*f0)(void); void (*f1)(int, void *); void *arg; };
static std::vector<ExitHandler> g_atexit;
static std::vector<void *> g_ctor_blocks; static bool g_in_ctor = false;
static std::vector<char> g_image_data, g_image_bss;     // what the statics look like when main() would start
static void ctor_block_add(void *p) { if (g_in_ctor && p) g_ctor_blocks.push_back(p); }
static void ctor_block_del(void *p) { if (g_ctor_blocks.empty() || !p) return; for (size_t i = 0; i < g_ctor_blocks.size(); i++) if (g_ctor_blocks[i] == p) { g_ctor_blocks.erase(g_ctor_blocks.begin() + (long)i); return; } }
size_t library_constructors() { return __start_eavinit ? (size_t)(__stop_eavinit - __start_eavinit) : 0; }
size_t library_exit_handlers() { return g_atexit.size() + (__start_eavfini ? (size_t)(__stop_eavfini - __start_eavfini) : 0); }
extern "C" void reset_hidden_libc_state();
void reset_library_globals() {
    g_sync.clear();         // pthread_once / mutex state lives with the statics it guards
    reset_hidden_libc_state();
    if (__start_eavdata && !g_pristine.empty()) __real_memcpy(__start_eavdata, g_pristine.data(), g_pristine.size());
    if (__start_eavbss) __real_memset(__start_eavbss, 0, (size_t)(__stop_eavbss - __start_eavbss));
    g_atexit.clear();
    { std::vector<void *> old; old.swap(g_ctor_blocks); for (void *p : old) __real_free(p); }
    if (__start_eavinit && __stop_eavinit > __start_eavinit) {
        int keep_sut = t_in_sut; t_in_sut = 0; g_in_ctor = true;
        for (init_fn *f = __start_eavinit; f < __stop_eavinit; f++) if (*f) (*f)(0, nullptr, environ);
        g_in_ctor = false; t_in_sut = keep_sut;
    }
    if (__start_eavdata) g_image_data.assign(__start_eavdata, __stop_eavdata);
    if (__start_eavbss) g_image_bss.assign(__start_eavbss, __stop_eavbss);
}
size_t run_library_exit() {
    size_t n = 0;
    while (!g_atexit.empty()) { ExitHandler h = g_atexit.back(); g_atexit.pop_back(); n++; if (h.f0) h.f0(); else if (h.f1) h.f1(0, h.arg); }
    if (__start_eavfini) for (fini_fn *f = __stop_eavfini; f > __start_eavfini; ) { --f; if (*f) { n++; (*f)(); } }
    return n;
}
bool library_globals_dirty() {
    if (__start_eavdata && g_image_data.size() == (size_t)(__stop_eavdata - __start_eavdata) && __real_memcmp(__start_eavdata, g_image_data.data(), g_image_data.size())) return true;
    if (__start_eavbss && g_image_bss.size() == (size_t)(__stop_eavbss - __start_eavbss) && __real_memcmp(__start_eavbss, g_image_bss.data(), g_image_bss.size())) return true;
    return false;
}

static int phdr_cb(struct dl_phdr_info *info, size_t, void *) { if (!g_base) g_base = info->dlpi_addr; return 1; }

void init() {
    g_cells = (Cell *)__real_calloc(NCELL, sizeof(Cell));
    dl_iterate_phdr(phdr_cb, nullptr);
    FILE *f = fopen("/proc/self/maps", "r");
    if (f) {
        char line[512];
        while (fgets(line, sizeof line, f)) {
            unsigned long lo, hi; char perms[8];
            if (sscanf(line, "%lx-%lx %7s", &lo, &hi, perms) == 3 && perms[1] != 'w' && perms[0] == 'r') g_ro.push_back(Range{ lo, hi });
        }
        fclose(f);
    }
    std::sort(g_ro.begin(), g_ro.end(), [](const Range &a, const Range &b) { return a.lo < b.lo; });
    if (__start_eavdata) g_pristine.assign(__start_eavdata, __stop_eavdata);
}

const char *set_process_locale(const char *name) { return __real_setlocale(LC_ALL, name); }
void name_range(const void *p, size_t n, const std::string &name) { g_named.push_back(Named{ (uintptr_t)p, (uintptr_t)p + n, name }); }
void clear_named() { g_named.clear(); }

} // namespace rt

using namespace rt;
#define PC ((uintptr_t)__builtin_return_address(0))

// ------------------------------------------------------------------ TSan ABI
extern "C" {
void __tsan_init(void) {}
void __tsan_func_entry(void *pc) { if (t_tid >= 0 && t_in_sut && TH[t_tid].depth < 8) TH[t_tid].frames[TH[t_tid].depth] = (uintptr_t)pc; if (t_tid >= 0 && t_in_sut) TH[t_tid].depth++; }
void __tsan_func_exit(void) { if (t_tid >= 0 && t_in_sut && TH[t_tid].depth > 0) TH[t_tid].depth--; }
#define RW(n) \
    void __tsan_read##n(void *a) { on_access((uintptr_t)a, n, false, PC); } \
    void __tsan_write##n(void *a) { on_access((uintptr_t)a, n, true, PC); } \
    void __tsan_unaligned_read##n(void *a) { on_access((uintptr_t)a, n, false, PC); } \
    void __tsan_unaligned_write##n(void *a) { on_access((uintptr_t)a, n, true, PC); }
RW(1) RW(2) RW(4) RW(8) RW(16)
void __tsan_read_range(void *a, unsigned long n) { on_range(a, n, false, PC); }
void __tsan_write_range(void *a, unsigned long n) { on_range(a, n, true, PC); }
void __tsan_vptr_read(void **a) { on_access((uintptr_t)a, 8, false, PC); }
void __tsan_vptr_update(void **a, void *) { on_access((uintptr_t)a, 8, true, PC); }
void __tsan_ignore_thread_begin(void) {} void __tsan_ignore_thread_end(void) {}
void __tsan_external_read(void *, void *, void *) {} void __tsan_external_write(void *, void *, void *) {}

// atomics: performed for real; acquire+release on the location (conservative: never a false race)
static void atomic_point(const volatile void *a, uintptr_t pc) {
    if (!active()) return;
    RtGuard rg_;
    if (g_mode == 1) { g_seq_steps++; rec_static((uintptr_t)a); return; }
    g_hot = true; g_spin_event = true; g_spin_pc = pc; sched_point(); g_spin_event = false; g_hot = false; ev_hash((uint32_t)(pc - g_base)); g_res->atomic_ops++;
    sync_acquire((const void *)a); sync_release((const void *)a);
}
#define ATOMICS(bits, T) \
    T __tsan_atomic##bits##_load(const volatile T *a, int) { atomic_point(a, PC); return __atomic_load_n(a, __ATOMIC_SEQ_CST); } \
    void __tsan_atomic##bits##_store(volatile T *a, T v, int) { atomic_point(a, PC); __atomic_store_n(a, v, __ATOMIC_SEQ_CST); } \
    T __tsan_atomic##bits##_exchange(volatile T *a, T v, int) { atomic_point(a, PC); return __atomic_exchange_n(a, v, __ATOMIC_SEQ_CST); } \
    T __tsan_atomic##bits##_fetch_add(volatile T *a, T v, int) { atomic_point(a, PC); return __atomic_fetch_add(a, v, __ATOMIC_SEQ_CST); } \
    T __tsan_atomic##bits##_fetch_sub(volatile T *a, T v, int) { atomic_point(a, PC); return __atomic_fetch_sub(a, v, __ATOMIC_SEQ_CST); } \
    T __tsan_atomic##bits##_fetch_and(volatile T *a, T v, int) { atomic_point(a, PC); return __atomic_fetch_and(a, v, __ATOMIC_SEQ_CST); } \
    T __tsan_atomic##bits##_fetch_or(volatile T *a, T v, int) { atomic_point(a, PC); return __atomic_fetch_or(a, v, __ATOMIC_SEQ_CST); } \
    T __tsan_atomic##bits##_fetch_xor(volatile T *a, T v, int) { atomic_point(a, PC); return __atomic_fetch_xor(a, v, __ATOMIC_SEQ_CST); } \
    T __tsan_atomic##bits##_fetch_nand(volatile T *a, T v, int) { atomic_point(a, PC); return __atomic_fetch_nand(a, v, __ATOMIC_SEQ_CST); } \
    int __tsan_atomic##bits##_compare_exchange_strong(volatile T *a, T *c, T v, int, int) { atomic_point(a, PC); return __atomic_compare_exchange_n(a, c, v, 0, __ATOMIC_SEQ_CST, __ATOMIC_SEQ_CST); } \
    int __tsan_atomic##bits##_compare_exchange_weak(volatile T *a, T *c, T v, int, int) { atomic_point(a, PC); return __atomic_compare_exchange_n(a, c, v, 0, __ATOMIC_SEQ_CST, __ATOMIC_SEQ_CST); } \
    T __tsan_atomic##bits##_compare_exchange_val(volatile T *a, T c, T v, int, int) { atomic_point(a, PC); __atomic_compare_exchange_n(a, &c, v, 0, __ATOMIC_SEQ_CST, __ATOMIC_SEQ_CST); return c; }
ATOMICS(8, uint8_t) ATOMICS(16, uint16_t) ATOMICS(32, uint32_t) ATOMICS(64, uint64_t)
void __tsan_atomic_thread_fence(int) { on_plain_point(PC); }
void __tsan_atomic_signal_fence(int) {}

// ------------------------------------------------------------------ libc wrappers (called from instrumented code)
size_t __wrap_strlen(const char *s) { size_t n = __real_strlen(s); on_range(s, n + 1, false, PC); return n; }
char *__wrap_strchr(const char *s, int c) { char *r = __real_strchr(s, c); on_range(s, r ? (size_t)(r - s) + 1 : __real_strlen(s) + 1, false, PC); return r; }
char *__wrap_strrchr(const char *s, int c) { char *r = __real_strrchr(s, c); on_range(s, __real_strlen(s) + 1, false, PC); return r; }
char *__wrap_strstr(const char *s, const char *n) { char *r = __real_strstr(s, n); on_range(s, __real_strlen(s) + 1, false, PC); on_range(n, __real_strlen(n) + 1, false, PC); return r; }
size_t __wrap_strspn(const char *s, const char *a) { size_t r = __real_strspn(s, a); on_range(s, r + 1, false, PC); on_range(a, __real_strlen(a) + 1, false, PC); return r; }
size_t __wrap_strcspn(const char *s, const char *a) { size_t r = __real_strcspn(s, a); on_range(s, r + 1, false, PC); on_range(a, __real_strlen(a) + 1, false, PC); return r; }
static size_t cmp_len(const char *a, const char *b, size_t n, bool fold) {
    size_t i = 0;
    for (; i < n; i++) { unsigned char x = (unsigned char)a[i], y = (unsigned char)b[i]; if (fold) { if (x >= 'A' && x <= 'Z') x += 32; if (y >= 'A' && y <= 'Z') y += 32; } if (x != y || !x) return i + 1; }
    return i;
}
int __wrap_strncasecmp(const char *a, const char *b, size_t n) { size_t l = cmp_len(a, b, n, true); on_range(a, l, false, PC); on_range(b, l, false, PC); return __real_strncasecmp(a, b, n); }
int __wrap_strcasecmp(const char *a, const char *b) { size_t l = cmp_len(a, b, (size_t)-1, true); on_range(a, l, false, PC); on_range(b, l, false, PC); return __real_strcasecmp(a, b); }
int __wrap_strcmp(const char *a, const char *b) { size_t l = cmp_len(a, b, (size_t)-1, false); on_range(a, l, false, PC); on_range(b, l, false, PC); return __real_strcmp(a, b); }
int __wrap_strncmp(const char *a, const char *b, size_t n) { size_t l = cmp_len(a, b, n, false); on_range(a, l, false, PC); on_range(b, l, false, PC); return __real_strncmp(a, b, n); }
void *__wrap_memcpy(void *d, const void *s, size_t n) { on_range(s, n, false, PC); on_range(d, n, true, PC); return __real_memcpy(d, s, n); }
void *__wrap_memmove(void *d, const void *s, size_t n) { on_range(s, n, false, PC); on_range(d, n, true, PC); return __real_memmove(d, s, n); }
void *__wrap_memset(void *d, int c, size_t n) { on_range(d, n, true, PC); return __real_memset(d, c, n); }
int __wrap_memcmp(const void *a, const void *b, size_t n) { on_range(a, n, false, PC); on_range(b, n, false, PC); return __real_memcmp(a, b, n); }
void *__wrap_memchr(const void *s, int c, size_t n) { void *r = __real_memchr(s, c, n); on_range(s, r ? (size_t)((const char *)r - (const char *)s) + 1 : n, false, PC); return r; }
char *__wrap_strcpy(char *d, const char *s) { size_t n = __real_strlen(s) + 1; on_range(s, n, false, PC); on_range(d, n, true, PC); return __real_strcpy(d, s); }
char *__wrap_strncpy(char *d, const char *s, size_t n) { size_t l = __real_strlen(s); on_range(s, l < n ? l + 1 : n, false, PC); on_range(d, n, true, PC); return __real_strncpy(d, s, n); }

static void block_add(void *p, size_t n) {
    if (!p || !active() || g_mode != 2) return;
    RtGuard rg_;
    shadow_clear_range((uintptr_t)p, n);
    g_blocks.push_back(Block{ (uintptr_t)p, n, ++g_block_id, t_tid });
}
static void block_del(void *p) {
    if (!p || !active() || g_mode != 2) return;
    RtGuard rg_;
    for (size_t i = 0; i < g_blocks.size(); i++) if (g_blocks[i].lo == (uintptr_t)p) { shadow_clear_range(g_blocks[i].lo, g_blocks[i].n); g_blocks.erase(g_blocks.begin() + (long)i); return; }
}
static bool alloc_fails(size_t size) {
    if (!active() || t_af_at <= 0 || t_af_fired) return false;
    if (t_af_n < 4) t_af_sizes[t_af_n] = size;
    if (++t_af_n == t_af_at) { t_af_fired = true; return true; }
    return false;
}
void *__wrap_malloc(size_t n) { on_plain_point(PC); if (alloc_fails(n)) { errno = ENOMEM; return nullptr; } void *p = __real_malloc(n); ctor_block_add(p); block_add(p, n); return p; }
void *__wrap_calloc(size_t a, size_t b) { on_plain_point(PC); if (alloc_fails(a * b)) { errno = ENOMEM; return nullptr; } void *p = __real_calloc(a, b); ctor_block_add(p); block_add(p, a * b); return p; }
void *__wrap_realloc(void *o, size_t n) { on_plain_point(PC); block_del(o); ctor_block_del(o); void *p = __real_realloc(o, n); ctor_block_add(p); block_add(p, n); return p; }
// a pointer into a thread's stack or thread-local block handed to free(): glibc would abort the process; report it instead
static bool bad_free(void *p) {
    if (!p || !active() || g_mode != 2 || !g_res) return false;
    int o = thread_memory_owner(p);
    if (o < 0) return false;
    RtGuard rg_;
    if (g_res->bad_free.empty()) g_res->bad_free = "thread " + std::to_string(t_tid) + " passes to free() a pointer into the stack / thread-local storage of " + (o == MAIN_TID ? std::string("the main thread") : "thread " + std::to_string(o));
    return true;
}
void __wrap_free(void *p) { on_plain_point(PC); if (bad_free(p)) return; block_del(p); ctor_block_del(p); __real_free(p); }
char *__wrap_strdup(const char *s) { size_t n = __real_strlen(s) + 1; on_range(s, n, false, PC); char *p = __real_strdup(s); ctor_block_add(p); block_add(p, n); return p; }
char *__wrap_strndup(const char *s, size_t n) { char *p = __real_strndup(s, n); if (p) { size_t l = __real_strlen(p) + 1; on_range(s, l - 1 < n ? l : n, false, PC); block_add(p, l); } return p; }

// the IDN converter: real, uninstrumented, one atomic step between two scheduling points
int __wrap_idn2_to_ascii_8z(const char *in, char **out, int flags) {
    on_range(in, __real_strlen(in) + 1, false, PC);
    char *before = *out;
    int rc = __real_idn2_to_ascii_8z(in, out, flags);
    if (*out && *out != before) { size_t n = __real_strlen(*out) + 1; block_add(*out, n); if (active() && g_mode == 2) { RtGuard rg_; for (size_t i = 0; i < n; i++) check_byte(t_tid, (uintptr_t)*out + i, true, (uint32_t)(PC - g_base)); } }
    return rc;
}

// formatted output and concatenation into caller-supplied buffers (a static buffer written through these is shared state)
int __wrap_vsnprintf(char *d, size_t n, const char *f, va_list ap) {
    int r = __real_vsnprintf(d, n, f, ap);
    if (d && n) on_range(d, (size_t)(r < 0 ? 0 : ((size_t)r + 1 < n ? (size_t)r + 1 : n)), true, PC);
    return r;
}
int __wrap_snprintf(char *d, size_t n, const char *f, ...) {
    va_list ap; va_start(ap, f); int r = __real_vsnprintf(d, n, f, ap); va_end(ap);
    if (d && n) on_range(d, (size_t)(r < 0 ? 0 : ((size_t)r + 1 < n ? (size_t)r + 1 : n)), true, PC);
    return r;
}
int __wrap_vsprintf(char *d, const char *f, va_list ap) { int r = __real_vsprintf(d, f, ap); if (r >= 0) on_range(d, (size_t)r + 1, true, PC); return r; }
int __wrap_sprintf(char *d, const char *f, ...) {
    va_list ap; va_start(ap, f); int r = __real_vsprintf(d, f, ap); va_end(ap);
    if (r >= 0) on_range(d, (size_t)r + 1, true, PC);
    return r;
}
char *__wrap_strcat(char *d, const char *s) { size_t dl = __real_strlen(d), sl = __real_strlen(s); on_range(d, dl + 1, false, PC); on_range(s, sl + 1, false, PC); on_range(d + dl, sl + 1, true, PC); return __real_strcat(d, s); }
char *__wrap_strncat(char *d, const char *s, size_t n) { size_t dl = __real_strlen(d), sl = __real_strlen(s); if (sl > n) sl = n; on_range(d, dl + 1, false, PC); on_range(s, sl, false, PC); on_range(d + dl, sl + 1, true, PC); return __real_strncat(d, s, n); }
char *__wrap_stpcpy(char *d, const char *s) { size_t n = __real_strlen(s) + 1; on_range(s, n, false, PC); on_range(d, n, true, PC); return __real_stpcpy(d, s); }
char *__wrap_strtok_r(char *s, const char *d, char **sv) {
    char *b = s ? s : (sv ? *sv : nullptr);
    if (b) on_range(b, __real_strlen(b) + 1, true, PC);        // strtok_r writes NULs into its input
    return __real_strtok_r(s, d, sv);
}
char *__wrap_strsep(char **sp, const char *d) { if (sp && *sp) on_range(*sp, __real_strlen(*sp) + 1, true, PC); return __real_strsep(sp, d); }

// setlocale(cat, NULL) only queries the process locale (a read of the hidden state); anything else replaces it (a write)
static void on_pseudo_read(int slot, uintptr_t pc_abs) {
    if (!active()) return;
    RtGuard rg_;
    if (g_mode == 1) { g_seq_steps++; return; }
    uint32_t pc = (uint32_t)(pc_abs - g_base);
    sched_point(); ev_hash(pc);
    check_byte(t_tid, (uintptr_t)&g_pseudo[slot], false, pc);
}
// libc interfaces with hidden process-global state: a call is a write to that state
// more MT-Unsafe libc interfaces with one hidden state per process
#include <search.h>
int __real_hcreate(size_t); ENTRY *__real_hsearch(ENTRY, ACTION); void __real_hdestroy(void);
static bool g_h_created = false;
int __wrap_hcreate(size_t n) { on_pseudo_write(5, PC); int r = __real_hcreate(n); if (r) g_h_created = true; return r; }
ENTRY *__wrap_hsearch(ENTRY e, ACTION a) { on_pseudo_write(5, PC); return __real_hsearch(e, a); }
void __wrap_hdestroy(void) { on_pseudo_write(5, PC); g_h_created = false; __real_hdestroy(); }
void reset_hidden_libc_state() { if (g_h_created) { __real_hdestroy(); g_h_created = false; } }     // a new simulated process has no table
struct tm *__real_localtime(const time_t *); struct tm *__real_gmtime(const time_t *); char *__real_asctime(const struct tm *); char *__real_ctime(const time_t *);
struct tm *__wrap_localtime(const time_t *t) { on_pseudo_write(6, PC); return __real_localtime(t); }
struct tm *__wrap_gmtime(const time_t *t) { on_pseudo_write(6, PC); return __real_gmtime(t); }
char *__wrap_asctime(const struct tm *t) { on_pseudo_write(6, PC); return __real_asctime(t); }
char *__wrap_ctime(const time_t *t) { on_pseudo_write(6, PC); return __real_ctime(t); }
long __real_random(void); void __real_srandom(unsigned); double __real_drand48(void); long __real_lrand48(void);
long __wrap_random(void) { on_pseudo_write(7, PC); return __real_random(); }
void __wrap_srandom(unsigned s) { on_pseudo_write(7, PC); __real_srandom(s); }
double __wrap_drand48(void) { on_pseudo_write(7, PC); return __real_drand48(); }
long __wrap_lrand48(void) { on_pseudo_write(7, PC); return __real_lrand48(); }
// thread identity is a source of nondeterminism the simulator owns: library code sees a stable id per simulated thread (real
// pthread_t values move with the address-space layout from process to process)
pthread_t __real_pthread_self(void);
pthread_t __wrap_pthread_self(void) {
    if (t_tid >= 0 && t_in_sut > 0 && t_in_rt == 0) return (pthread_t)(((uintptr_t)(t_tid == MAIN_TID ? MAXT : t_tid) + 1) << 12);
    return __real_pthread_self();
}
// the few pthread calls that take a thread id back: a simulated id is translated to the real one
static pthread_t real_thread_of(pthread_t t) {
    uintptr_t v = (uintptr_t)t;
    if ((v & 0xfff) == 0 && v >= (1u << 12) && (v >> 12) <= (uintptr_t)MAXT + 1) { int k = (int)(v >> 12) - 1; if (k == MAXT) return g_main_thread; if (k >= 0 && k < MAXT - 1) return TH[k].th; }
    return t;
}
int __real_pthread_getattr_np(pthread_t, pthread_attr_t *);
int __wrap_pthread_getattr_np(pthread_t t, pthread_attr_t *a) { return __real_pthread_getattr_np(real_thread_of(t), a); }
char *__wrap_strtok(char *s, const char *d) { on_pseudo_write(0, PC); return __real_strtok(s, d); }
char *__wrap_strerror(int e) { on_pseudo_write(1, PC); return __real_strerror(e); }
int __wrap_rand(void) { on_pseudo_write(2, PC); return __real_rand(); }
void __wrap_srand(unsigned s) { on_pseudo_write(2, PC); __real_srand(s); }
char *__wrap_setlocale(int c, const char *l) { if (l) on_pseudo_write(3, PC); else on_pseudo_read(3, PC); return __real_setlocale(c, l); }
// the process environment: getenv reads it, setenv/putenv/unsetenv/clearenv rewrite it (MT-Unsafe against getenv)
char *__wrap_getenv(const char *n) { on_pseudo_read(4, PC); return __real_getenv(n); }
int __wrap_setenv(const char *n, const char *v, int o) { on_pseudo_write(4, PC); return __real_setenv(n, v, o); }
int __wrap_unsetenv(const char *n) { on_pseudo_write(4, PC); return __real_unsetenv(n); }
int __wrap_putenv(char *s) { on_pseudo_write(4, PC); return __real_putenv(s); }
int __wrap_clearenv(void) { on_pseudo_write(4, PC); return __real_clearenv(); }

// sched_yield(): the caller says it is waiting for somebody else
int __wrap_sched_yield(void) {
    if (!active() || g_mode != 2) return 0;
    RtGuard rg_;
    g_yield_now = true; sched_point(); ev_hash((uint32_t)(PC - g_base));
    return 0;
}

// abort / assert inside a simulated thread: stop that thread, keep the simulation alive
// exit handlers registered by library code (from a constructor or from a call) are kept by the simulated process
int __real_atexit(void (*)(void)); int __real_on_exit(void (*)(int, void *), void *);
int __wrap_atexit(void (*f)(void)) { if (g_in_ctor || t_in_sut > 0) { RtGuard rg_; g_atexit.push_back(ExitHandler{ f, nullptr, nullptr }); return 0; } return __real_atexit(f); }
int __wrap_on_exit(void (*f)(int, void *), void *a) { if (g_in_ctor || t_in_sut > 0) { RtGuard rg_; g_atexit.push_back(ExitHandler{ nullptr, f, a }); return 0; } return __real_on_exit(f, a); }
void __wrap_abort(void) {
    if (t_tid >= 0 && t_tid < MAXT && TH[t_tid].abort_armed) { TH[t_tid].aborted = true; longjmp(TH[t_tid].abort_jmp, 1); }
    fprintf(stderr, "abort() outside a simulated thread\n"); _Exit(70);
}
void __wrap___assert_fail(const char *e, const char *f, unsigned l, const char *fn) {
    if (t_tid >= 0 && t_tid < MAXT && TH[t_tid].abort_armed) { TH[t_tid].aborted = true; longjmp(TH[t_tid].abort_jmp, 2); }
    fprintf(stderr, "assertion failed outside a simulated thread: %s %s:%u %s\n", e, f, l, fn ? fn : ""); _Exit(71);
}

// pthread primitives used by (changed) library code: modelled, scheduler-visible
int __wrap_pthread_mutex_lock(pthread_mutex_t *m) {
    if (!active() || g_mode != 2) return 0;
    RtGuard rg_;
    sched_point(); ev_hash((uint32_t)(PC - g_base)); g_res->sync_ops++;
    SyncObj *s = &sync_obj(m);
    while (s->owner != -1 && s->owner != t_tid) { block_on(m); s = &sync_obj(m); if (g_stop_all) return 0; }
    s->owner = t_tid; sync_acquire(m);
    return 0;
}
int __wrap_pthread_mutex_trylock(pthread_mutex_t *m) {
    if (!active() || g_mode != 2) return 0;
    RtGuard rg_;
    sched_point(); ev_hash((uint32_t)(PC - g_base)); g_res->sync_ops++;
    SyncObj &s = sync_obj(m);
    if (s.owner != -1) return EBUSY;
    s.owner = t_tid; sync_acquire(m); return 0;
}
int __wrap_pthread_mutex_unlock(pthread_mutex_t *m) {
    if (!active() || g_mode != 2) return 0;
    RtGuard rg_;
    sched_point(); ev_hash((uint32_t)(PC - g_base)); g_res->sync_ops++;
    SyncObj &s = sync_obj(m);
    sync_release(m); s.owner = -1; unblock_waiters(m);
    return 0;
}
// POSIX semaphores: a counter the scheduler sees.  A thread that would block in sem_wait() may instead be interrupted by a
// signal handled by the application (handler installed without SA_RESTART): the call returns -1/EINTR WITHOUT having taken
// the semaphore, which POSIX allows at any time.  Whether that happens to a given blocking call is decided by the run's
// schedule seed and the number of blocking waits so far (Config::sig_rate percent; 0 = never).
int __wrap_sem_init(sem_t *m, int, unsigned value) {
    if (!active()) return 0;
    RtGuard rg_;
    SyncObj &s = sync_obj(m); s.sem = (long)value; s.once_state = 7;
    return 0;
}
int __wrap_sem_destroy(sem_t *) { return 0; }
int __wrap_sem_post(sem_t *m) {
    if (!active()) return 0;
    RtGuard rg_;
    if (g_mode == 2) { sched_point(); ev_hash((uint32_t)(PC - g_base)); g_res->sync_ops++; }
    SyncObj &s = sync_obj(m);
    if (g_mode == 2) sync_release(m);
    s.sem++;
    if (g_mode == 2) unblock_waiters(m);
    return 0;
}
int __wrap_sem_trywait(sem_t *m) {
    if (!active()) return 0;
    RtGuard rg_;
    if (g_mode == 2) { sched_point(); ev_hash((uint32_t)(PC - g_base)); g_res->sync_ops++; }
    SyncObj &s = sync_obj(m);
    if (s.sem <= 0) { errno = EAGAIN; return -1; }
    s.sem--; if (g_mode == 2) sync_acquire(m);
    return 0;
}
int __wrap_sem_wait(sem_t *m) {
    if (!active()) return 0;
    RtGuard rg_;
    if (g_mode != 2) { SyncObj &s = sync_obj(m); if (s.sem > 0) s.sem--; return 0; }
    sched_point(); ev_hash((uint32_t)(PC - g_base)); g_res->sync_ops++;
    SyncObj *s = &sync_obj(m);
    while (s->sem <= 0) {
        if (g_cfg && g_cfg->sig_rate > 0) {
            uint64_t h = sim_mix64(g_cfg->sched_seed ^ (0x516a1ULL + ++g_sem_blocks * 0x9e3779b97f4a7c15ULL));
            if ((int)(h % 100) < g_cfg->sig_rate) { g_res->sem_eintr++; ev_hash(0xe1272u); errno = EINTR; return -1; }
        }
        block_on(m); s = &sync_obj(m); if (g_stop_all) return 0;
    }
    s->sem--; sync_acquire(m);
    return 0;
}
int __wrap_sem_timedwait(sem_t *m, const struct timespec *) { return __wrap_sem_wait(m); }

int __wrap_pthread_mutex_init(pthread_mutex_t *, const pthread_mutexattr_t *) { return 0; }
int __wrap_pthread_mutex_destroy(pthread_mutex_t *) { return 0; }
int __wrap_pthread_rwlock_rdlock(pthread_rwlock_t *m) {
    if (!active() || g_mode != 2) return 0;
    RtGuard rg_;
    sched_point(); ev_hash((uint32_t)(PC - g_base)); g_res->sync_ops++;
    SyncObj *s = &sync_obj(m);
    while (s->owner != -1) { block_on(m); s = &sync_obj(m); if (g_stop_all) return 0; }
    s->readers++; sync_acquire(m); return 0;
}
int __wrap_pthread_rwlock_wrlock(pthread_rwlock_t *m) {
    if (!active() || g_mode != 2) return 0;
    RtGuard rg_;
    sched_point(); ev_hash((uint32_t)(PC - g_base)); g_res->sync_ops++;
    SyncObj *s = &sync_obj(m);
    while (s->owner != -1 || s->readers > 0) { block_on(m); s = &sync_obj(m); if (g_stop_all) return 0; }
    s->owner = t_tid; sync_acquire(m); return 0;
}
int __wrap_pthread_rwlock_unlock(pthread_rwlock_t *m) {
    if (!active() || g_mode != 2) return 0;
    RtGuard rg_;
    sched_point(); ev_hash((uint32_t)(PC - g_base)); g_res->sync_ops++;
    SyncObj &s = sync_obj(m);
    sync_release(m);
    if (s.owner == t_tid) s.owner = -1; else if (s.readers > 0) s.readers--;
    unblock_waiters(m); return 0;
}
int __wrap_pthread_once(pthread_once_t *o, void (*fn)(void)) {
    if (!active()) {            // sequential / reference mode: a plain once
        SyncObj &s = sync_obj(o);
        if (s.once_state != 2) { s.once_state = 2; fn(); }
        if (g_mode == 1) g_seq_steps++;
        return 0;
    }
    if (g_mode == 1) { SyncObj &s = sync_obj(o); g_seq_steps++; if (s.once_state != 2) { s.once_state = 2; fn(); } return 0; }
    t_in_rt++;
    sched_point(); ev_hash((uint32_t)(PC - g_base)); g_res->sync_ops++;
    SyncObj *s = &sync_obj(o);
    while (s->once_state == 1) { block_on(o); s = &sync_obj(o); if (g_stop_all) { t_in_rt--; return 0; } }
    if (s->once_state == 0) {
        s->once_state = 1; s->owner = t_tid;
        t_in_rt--; fn(); t_in_rt++;         // the init routine is library code: its accesses are events
        s = &sync_obj(o); s->once_state = 2; s->owner = -1;
        sync_release(o); unblock_waiters(o);
    } else sync_acquire(o);
    t_in_rt--;
    return 0;
}
} // extern "C"

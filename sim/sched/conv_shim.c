/* What the libidn / idnkit adapters need from "the simulator" in the C14 build: the one converter (plain libidn2; the
 * call goes through the runtime's __wrap_idn2_to_ascii_8z like every other call in this link, so it is an event) and
 * no-op versions of the history simulator's fault / report seams. */
#define IDN2_SKIP_LIBIDN_COMPAT
#include <idn2.h>
#include <stdlib.h>
#include <string.h>
#include "../hist/simrt.h"

int g_sim_tag = SIM_TAG_NONE;
int g_sim_in_free = 0;
struct sim_conv g_sim_conv;
int g_sim_nreports = 0;
char g_sim_report_cls[8][64];
char g_sim_report_detail[8][160];

void sim_report (const char *cls, const char *detail)
{
    if (g_sim_nreports < 8) { strncpy (g_sim_report_cls[g_sim_nreports], cls, 63); strncpy (g_sim_report_detail[g_sim_nreports], detail ? detail : "", 159); }
    g_sim_nreports++;
}
void sim_raw_free (void *p) { free (p); }

int sim_convert_raw (const char *in, char **out, int *fault, int flags)
{
    if (fault) *fault = 0;
    return idn2_to_ascii_8z (in, out, flags < 0 ? IDN2_NONTRANSITIONAL : flags);
}
int sim_convert (const char *in, char **out, int flags)
{
    return idn2_to_ascii_8z (in, out, flags < 0 ? IDN2_NONTRANSITIONAL : flags);
}

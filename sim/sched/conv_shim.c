/* The one converter behind the libidn adapter in the C14 build: plain libidn2 (the call goes through the runtime's
 * __wrap_idn2_to_ascii_8z like every other call in this link, so it is an event). */
#define IDN2_SKIP_LIBIDN_COMPAT
#include <idn2.h>
int sim_convert (const char *in, char **out, int flags)
{
    return idn2_to_ascii_8z (in, out, flags < 0 ? IDN2_NONTRANSITIONAL : flags);
}
